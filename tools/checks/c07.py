"""C07 — conditional_assignment gives each target its unique active branch's value.

Random condition trees (depth, sibling chains, `otherwise` anywhere, shared predicates, wire /
register / memory targets, `defaults=`) are elaborated by the real code; accept/reject is compared
with the syntactic-exclusivity rule; accepted programs are evaluated in the Lean Spec model over
several cycles and compared with (i) an interpreter of the statement's definition of "active"
(the property) and (ii) the Lean elaboration model `Cond.*` (the tie)."""
import pyrtl
from pyrtl import Input, Output, Const, Register, WireVector, MemBlock
from vlib import simrun
from vlib.common import proof_gate, conclude
from vlib.serialize import Ser

NP = 4      # predicates
ND = 3      # data inputs (3 bits each)


def gen_tree(rng, depth, targets, maxsib, nested=False):
    items = []
    for _ in range(rng.randint(1, maxsib)):
        # `otherwise` after any sibling; inside a branch also as the very first clause of its level
        p = 'o' if ((items and rng.random() < 0.3) or (nested and not items and rng.random() < 0.15)) else rng.randrange(NP)
        body = []
        for __ in range(rng.randint(0, 2)):
            body.append(('asg', rng.choice(targets), rng.randrange(ND)))
        if depth > 0 and rng.random() < 0.6:
            body.append(('sub', gen_tree(rng, depth - 1, targets, maxsib, nested=True)))
        if rng.random() < 0.3:
            body.append(('asg', rng.choice(targets), rng.randrange(ND)))
        items.append((p, body))
    return items


def assignments(tree, stack=()):
    """[(target, rhs index, stack of levels)] in program order; a level lists the sibling guards so far"""
    out = []
    sibs = []
    for p, body in tree:
        sibs = sibs + [p]
        st = stack + (tuple(sibs),)
        for b in body:
            if b[0] == 'asg':
                out.append((b[1], b[2], st))
            else:
                out += assignments(b[1], st)
    return out


def lits(stack):
    """the statement's definition: enclosing branch predicates positive; earlier siblings since the last
    otherwise at that level negative"""
    s = set()
    for lvl in stack:
        before = list(lvl[:-1])
        if 'o' in before:
            before = before[len(before) - before[::-1].index('o'):]
        for g in before:
            s.add((g, True))
        if lvl[-1] != 'o':
            s.add((lvl[-1], False))
    return s


def exclusive(a, b):
    return any(p == q and x != y for (p, x) in a for (q, y) in b)


def active(stack, pv):
    for lvl in stack:
        before = list(lvl[:-1])
        if 'o' in before:
            before = before[len(before) - before[::-1].index('o'):]
        if any(pv[g] for g in before):
            return False
        if lvl[-1] != 'o' and not pv[lvl[-1]]:
            return False
    return True


def build(tree, preds, data, tg, special=None):
    special = special or {}
    for p, body in tree:
        ctx = pyrtl.otherwise if p == 'o' else preds[p]
        with ctx:
            for b in body:
                if b[0] == 'asg':
                    t = tg[b[1]]
                    sp = special.get(b[2])
                    if isinstance(t, Register):
                        if sp and sp[0] == 'hold':
                            t.next |= t                 # an explicit hold
                        elif sp and sp[0] == 'lit':
                            t.next |= sp[1]             # an integer literal (narrower than the register)
                        else:
                            t.next |= data[b[2]]
                    elif isinstance(t, MemBlock):
                        t[data[(b[2] + 1) % ND][:2]] |= MemBlock.EnabledWrite(data[b[2]], data[(b[2] + 2) % ND][0])
                    elif sp and sp[0] == 'lit':
                        t |= sp[1]
                    else:
                        t |= data[b[2]]
                else:
                    build(b[1], preds, data, tg, special)


def rhs_value(special, tname, idx, dv, rv):
    sp = special.get(idx)
    if sp and sp[0] == 'lit' and tname != 'm':
        return sp[1]
    if sp and sp[0] == 'hold' and tname in rv:
        return rv[tname]
    return dv[idx]


def one_tree(ctx, k):
    rng = ctx.rng
    pyrtl.reset_working_block()
    preds = [Input(1, 'p%d' % i) for i in range(NP)]
    data = [Input(3, 'd%d' % i) for i in range(ND)]
    w0, w1 = WireVector(3, 'w0'), WireVector(3, 'w1')
    r0, r1 = Register(3, 'r0'), Register(3, 'r1', reset_value=5)
    # memories have their own name space: now and then the memory is called like one of the wires / registers
    m = MemBlock(3, 2, rng.choice(['m', 'm', 'r0', 'w1', 'r1']), asynchronous=True, max_read_ports=None, max_write_ports=None)
    tg = {'w0': w0, 'w1': w1, 'r0': r0, 'r1': r1, 'm': m}
    names = list(tg)
    depth = rng.choice([0, 1, 2, ctx.n(3, 4)])
    tree = gen_tree(rng, depth, rng.sample(names, rng.randint(1, len(names))), rng.choice([2, 3, 5]))
    asgs = assignments(tree)
    use_defaults = rng.random() < 0.5
    iw1, ir1 = rng.randrange(ND), rng.randrange(ND)
    dflt_w1 = data[iw1]
    dflt_r1 = data[ir1]
    # now and then a default is an integer literal rather than a wire
    lit_w1 = rng.choice([0, 1, 3, 6]) if rng.random() < 0.3 else None
    lit_r1 = rng.choice([0, 1, 2, 7]) if rng.random() < 0.3 else None
    if lit_w1 is not None:
        dflt_w1 = lit_w1
    if lit_r1 is not None:
        dflt_r1 = lit_r1
    defaults = {w1: dflt_w1, r1: dflt_r1} if use_defaults else {}
    special = {}
    if rng.random() < 0.5:
        for idx in rng.sample(range(ND), rng.randint(1, min(2, ND))):
            special[idx] = ('hold',) if rng.random() < 0.4 else ('lit', rng.choice([0, 1, 2, 3, 5, 7]))
    replay = {'kind': 'cond-tree', 'tree': repr(tree), 'defaults': use_defaults, 'special_rhs': {str(k_): list(v) for k_, v in special.items()},
              'literal_defaults': [lit_w1, lit_r1]}
    for v in special.values():
        ctx.count('special-rhs', v[0])
    # expected accept / reject: every two assignments to one target syntactically exclusive
    by_t = {}
    for t, rhs, st in asgs:
        by_t.setdefault(t, []).append((rhs, st))
    want_reject = any(not exclusive(lits(a[1]), lits(b[1])) for t, l in by_t.items()
                      for i, a in enumerate(l) for b in l[i + 1:])
    try:
        with pyrtl.conditional_assignment(defaults=defaults):
            build(tree, preds, data, tg, special)
        rejected = None
    except pyrtl.PyrtlError as e:
        rejected = str(e)
    except Exception as e:  # noqa
        ctx.violation('elaboration-raises:' + type(e).__name__, 'conditional_assignment raised %s: %s' % (type(e).__name__, str(e)[:160]), replay)
        return
    # reset module state defensively (a failed elaboration must not leak into the next program)
    ctx.count('outcome', 'rejected' if rejected else 'accepted')
    if rejected is not None and any(not lits(st) for _, _, st in asgs):
        # an assignment under no predicate at all (top-level `otherwise` with nothing before it since the last
        # `otherwise`): PyRTL has no select signal for it and refuses the program loudly; the property's notion of
        # "conditionally assigned" does not cover an unconditional assignment, so either outcome is accepted
        ctx.count('outcome', 'unconditional-assignment-rejected')
        return
    if (rejected is not None) != want_reject:
        ctx.violation('accept-reject', 'program %s although two assignments to one target are %ssyntactically exclusive (%s)' % (
            'rejected' if rejected else 'accepted', '' if not want_reject else 'not ', rejected), replay)
        return
    # Lean elaboration model: conflict verdict must agree
    stacks_json = lambda st: [[('o' if g == 'o' else g) for g in lvl] for lvl in st]   # noqa
    tj = [{'default': 0, 'asgs': [{'stack': stacks_json(st), 'rhs': rhs} for rhs, st in by_t[t]]} for t in sorted(by_t)]
    vals = [[(v >> i) & 1 for i in range(NP)] for v in range(1 << NP)]
    m_resp = ctx.driver.ask({'cmd': 'cond', 'targets': tj, 'valuations': vals})
    if not m_resp.get('ok'):
        raise RuntimeError('cond model: %s' % m_resp)
    ctx.tie_n = getattr(ctx, 'tie_n', 0) + 1
    model_conf = any(t['conflict'] for t in m_resp['targets'])
    if model_conf != (rejected is not None):
        ctx.tie_bad = getattr(ctx, 'tie_bad', 0) + 1
        ctx.tie_only = getattr(ctx, 'tie_only', []) + [dict(replay, model_conflict=model_conf)]
    if rejected is not None:
        return
    # the model's conjunction must coincide with the statement's "active" on every valuation
    for t in m_resp['targets']:
        for row in t['rows']:
            if not row[2] or row[1] > 1:
                ctx.tie_bad = getattr(ctx, 'tie_bad', 0) + 1
    # complete the design and simulate
    used = set(by_t)
    if 'w0' not in used:
        w0 <<= 0
    if 'w1' not in used:
        w1 <<= 0
    if 'r0' not in used:
        r0.next <<= r0
    if 'r1' not in used:
        r1.next <<= r1
    for n_, wire in (('ow0', w0), ('ow1', w1), ('or0', r0), ('or1', r1)):
        o = Output(3, n_)
        o <<= wire
    for a in range(4):
        o = Output(3, 'om%d' % a)
        o <<= m[Const(a, 2)]
    blk = pyrtl.working_block()
    try:
        blk.sanity_check()
    except Exception as e:  # noqa
        ctx.violation('elaborated-malformed', 'accepted program elaborates to a malformed block: %s' % str(e)[:160], replay)
        return
    ser = Ser(blk)
    ncyc = 8
    steps = []
    for _ in range(ncyc):
        s = {'p%d' % i: rng.randrange(2) for i in range(NP)}
        s.update({'d%d' % i: rng.randrange(8) for i in range(ND)})
        steps.append(s)
    watch = ['ow0', 'ow1', 'or0', 'or1', 'om0', 'om1', 'om2', 'om3']
    resp = ctx.driver.ask(simrun.lean_request(ser, steps, {}, {}, 0, model='spec', watch=watch))
    if not resp.get('ok'):
        raise RuntimeError('spec rejected conditional design: %s' % resp)
    # interpreter of the statement
    rv = {'r0': 0, 'r1': 5}
    mem = [0, 0, 0, 0]
    for c, s in enumerate(steps):
        pv = [s['p%d' % i] for i in range(NP)]
        dv = [s['d%d' % i] for i in range(ND)]
        act = {}
        for t, rhs, st in asgs:
            if active(st, pv):
                act.setdefault(t, []).append(rhs)
        if any(len(v) > 1 for v in act.values()):
            ctx.violation('two-active', 'accepted program has two active assignments to one target under %r' % pv, replay)
            return
        exp = {
            'ow0': rhs_value(special, 'w0', act['w0'][0], dv, rv) if 'w0' in act else 0,
            'ow1': rhs_value(special, 'w1', act['w1'][0], dv, rv) if 'w1' in act else ((dv[iw1] if lit_w1 is None else lit_w1) if (use_defaults and 'w1' in used) else 0),
            'or0': rv['r0'], 'or1': rv['r1'],
            'om0': mem[0], 'om1': mem[1], 'om2': mem[2], 'om3': mem[3],
        }
        got = dict(zip(watch, resp['trace'][c]))
        if got != exp:
            diff = [k_ for k_ in watch if got[k_] != exp[k_]][0]
            ctx.violation('wrong-value:' + diff[1:3], 'cycle %d predicates %r data %r: %s is %d, the unique active branch (or default) gives %d' % (
                c, pv, dv, diff, got[diff], exp[diff]), dict(replay, cycle=c, preds=pv, data=dv))
            return
        # registers / memory for the next cycle
        if 'r0' in used:
            rv['r0'] = rhs_value(special, 'r0', act['r0'][0], dv, rv) if 'r0' in act else rv['r0']
        if 'r1' in used:
            rv['r1'] = rhs_value(special, 'r1', act['r1'][0], dv, rv) if 'r1' in act else ((dv[ir1] if lit_r1 is None else lit_r1) if use_defaults else rv['r1'])
        if 'm' in act:
            j = act['m'][0]
            if dv[(j + 2) % ND] & 1:
                mem[dv[(j + 1) % ND] & 3] = dv[j]
    ctx.case((repr(tree), use_defaults), nontrivial=len(asgs) >= 2)
    ctx.count('depth', depth)
    ctx.count('assignments', min(len(asgs), 8))
    ctx.sample({'tree': repr(tree)[:300], 'assignments': len(asgs), 'defaults': use_defaults})


def multi_block(ctx, k):
    """several conditional_assignment blocks in one design: a defaults table shared by two of them (the same dict
    object), and a 1-bit memory read used directly as a predicate"""
    rng = ctx.rng
    pyrtl.reset_working_block()
    a, b, c = Input(1, 'a'), Input(1, 'b'), Input(1, 'c')
    sel = Input(2, 'sel')
    x, y = Input(3, 'x'), Input(3, 'y')
    w1, w2, w3 = WireVector(3, 'w1'), WireVector(3, 'w2'), WireVector(3, 'w3')
    r = Register(3, 'r')
    flags = MemBlock(1, 2, 'flags', asynchronous=True)
    dv = {n: rng.randrange(8) for n in ('w1', 'w2', 'r')}
    shared = {w1: dv['w1'], w2: dv['w2'], r: dv['r']}
    order = rng.sample([0, 1, 2], 3)
    for blk in order:
        if blk == 0:
            with pyrtl.conditional_assignment(defaults=shared):
                with a:
                    w1 |= x
        elif blk == 1:
            with pyrtl.conditional_assignment(defaults=shared):
                with b:
                    w2 |= y
                    r.next |= r + 1
        else:
            with pyrtl.conditional_assignment:
                with flags[sel]:
                    w3 |= x
                with c:
                    w3 |= y
                with pyrtl.otherwise:
                    w3 |= 7
    for n, w in (('o1', w1), ('o2', w2), ('o3', w3), ('or', r)):
        o = Output(3, n)
        o <<= w
    init = {k_: rng.randrange(2) for k_ in range(4)}
    replay = {'kind': 'multi-block', 'order': order, 'defaults': dv, 'flags': init}
    try:
        sim = pyrtl.Simulation(memory_value_map={flags: dict(init)})
    except Exception as e:  # noqa
        ctx.violation('multi-block-raises:' + type(e).__name__, 'a design with three conditional blocks raised %s: %s' % (type(e).__name__, str(e)[:120]), replay)
        return
    rv = 0
    for cyc in range(6):
        st = {'a': rng.randrange(2), 'b': rng.randrange(2), 'c': rng.randrange(2), 'sel': rng.randrange(4), 'x': rng.randrange(8), 'y': rng.randrange(8)}
        sim.step(st)
        want = {'o1': st['x'] if st['a'] else dv['w1'], 'o2': st['y'] if st['b'] else dv['w2'],
                'o3': st['x'] if init[st['sel']] else (st['y'] if st['c'] else 7), 'or': rv}
        got = {n: sim.inspect(n) for n in want}
        ctx.evaluations += 1
        if got != want:
            bad = [n for n in want if got[n] != want[n]][0]
            ctx.violation('multi-block-value:' + bad, 'three conditional blocks (two sharing one defaults dict, block order %r), cycle %d: %s = %d, expected %d' % (
                order, cyc, bad, got[bad], want[bad]), dict(replay, cycle=cyc, inputs=st))
            return
        rv = (rv + 1) % 8 if st['b'] else dv['r']


def mem_blocks(ctx, k):
    """two memories written in one conditional block (bank select), and one of them written again from a second,
    separate conditional block: every port keeps its own guard, address, data"""
    rng = ctx.rng
    pyrtl.reset_working_block()
    wr, bank, we1 = Input(1, 'wr'), Input(1, 'bank'), Input(1, 'we1')
    addr, a1 = Input(2, 'addr'), Input(2, 'a1')
    data, d1 = Input(8, 'data'), Input(8, 'd1')
    hi = MemBlock(8, 2, 'hi', asynchronous=True, max_write_ports=2, max_read_ports=None)
    lo = MemBlock(8, 2, 'lo', asynchronous=True, max_read_ports=None)
    cnt = Register(3, 'cnt')
    order = rng.random() < 0.5
    try:
        def first():
            with pyrtl.conditional_assignment:
                with wr:
                    cnt.next |= cnt + 1
                    with bank:
                        hi[addr] |= data
                    with pyrtl.otherwise:
                        lo[addr] |= data

        def second():
            with pyrtl.conditional_assignment:
                with we1:
                    hi[a1] |= d1
        for f in ((first, second) if order else (second, first)):
            f()
    except Exception as e:  # noqa
        ctx.violation('mem-blocks-raises:' + type(e).__name__, 'two conditional blocks writing two memories (a two-port memory from both blocks) '
                      'raised %s: %s' % (type(e).__name__, str(e)[:140]), {'kind': 'mem-blocks', 'order': order})
        return
    for nm_, m_ in (('h', hi), ('l', lo)):
        for a in range(4):
            o = Output(8, 'o%s%d' % (nm_, a))
            o <<= m_[Const(a, 2)]
    oc = Output(3, 'ocnt')
    oc <<= cnt
    try:
        sim = pyrtl.Simulation()
    except Exception as e:  # noqa
        ctx.violation('mem-blocks-raises:' + type(e).__name__, 'the design raised %s: %s' % (type(e).__name__, str(e)[:140]), {'kind': 'mem-blocks'})
        return
    H, L, c = [0] * 4, [0] * 4, 0
    for cyc in range(8):
        st = {'wr': rng.randrange(2), 'bank': rng.randrange(2), 'we1': rng.randrange(2), 'addr': rng.randrange(4),
              'a1': rng.randrange(4), 'data': rng.randrange(256), 'd1': rng.randrange(256)}
        if st['wr'] and st['bank'] and st['we1'] and st['a1'] == st['addr']:
            st['a1'] = (st['a1'] + 1) % 4        # two ports, one word: unspecified
        sim.step(st)
        want = {'oh%d' % a: H[a] for a in range(4)}
        want.update({'ol%d' % a: L[a] for a in range(4)})
        want['ocnt'] = c
        got = {n: sim.inspect(n) for n in want}
        ctx.evaluations += 1
        if got != want:
            bad = [n for n in sorted(want) if got[n] != want[n]][0]
            ctx.violation('mem-blocks-value:' + bad[:2], 'two memories in one conditional block and a second block writing one of them (order %s), cycle %d: '
                          '%s = %d, expected %d' % ('first,second' if order else 'second,first', cyc, bad, got[bad], want[bad]),
                          {'kind': 'mem-blocks', 'cycle': cyc, 'inputs': st})
            return
        if st['wr']:
            c = (c + 1) % 8
            if st['bank']:
                H[st['addr']] = st['data']
            else:
                L[st['addr']] = st['data']
        if st['we1']:
            H[st['a1']] = st['d1']


def main(ctx):
    proofs_ok = proof_gate(ctx, gen_modules=[])
    for k in range(ctx.n(20, 200)):
        mem_blocks(ctx, k)
    for k in range(ctx.n(30, 400)):
        try:
            multi_block(ctx, k)
        except pyrtl.PyrtlError as e:
            ctx.violation('multi-block-raises:PyrtlError', 'a design with three conditional blocks raised PyrtlError: %s' % str(e)[:120], {'kind': 'multi-block'})
            break
        except Exception as e:  # noqa
            ctx.violation('multi-block-raises:' + type(e).__name__, 'a design with three conditional blocks raised %s: %s' % (type(e).__name__, str(e)[:120]), {'kind': 'multi-block'})
            break
    n = ctx.n(1500, 20000)
    if not proofs_ok:
        n *= 2
    for k in ctx.loop(n):
        one_tree(ctx, k)
        ctx.evaluations += 1
        if len(ctx.violations) >= 5:
            break
    tb, tn = getattr(ctx, 'tie_bad', 0), getattr(ctx, 'tie_n', 0)
    ctx.oblige('tie:real accept/reject and activeness = Lean Cond model', tb == 0, '%d disagreements over %d programs' % (tb, tn))
    if tb and not ctx.violations:
        ctx.extra['tie_only_examples'] = getattr(ctx, 'tie_only', [])[:3]
    ctx.oblige('property:unique active branch value, defaults, rejection rule', not ctx.violations, '%d programs' % n)
    return conclude(ctx, rule='random condition trees: depth 0..4, sibling chains up to 5, otherwise after any sibling (several per '
                    'chain), 4 shared predicates, targets 2 wires + 2 registers + 1 memory (enabled writes with data-dependent '
                    'address/enable), defaults= for a wire and a register; 8 cycles of random predicate/data values; distinct = '
                    'distinct accepted trees with >= 2 assignments')
