"""C08 — MemBlock/RomBlock behave as arrays under every history of reads and writes.

Histories of per-cycle (write addr, data, enable) x ports and (read addr) x ports over addr/data
widths 1..70 and initial contents, on Simulation / FastSimulation / CompiledSimulation, on the Lean
Spec model, and after synthesize / optimize (evaluated in the Lean Spec model); oracle = a plain array.
Bounded-exhaustive part (a test, labelled so): 2-word memory, every content x every operation.
ROMs: list / dict / function data, in-range reads equal the data, illegal reads are refused."""
import itertools
import pyrtl
from pyrtl import Input, Output, Const, MemBlock, RomBlock
from vlib import simrun, gen, passlib, memsynth
from vlib.common import proof_gate, conclude
from vlib.serialize import Ser

SIMS = [pyrtl.Simulation, pyrtl.FastSimulation, pyrtl.CompiledSimulation]


def mem_design(aw, dw, nrd, nwr, regports=False, cond=False):
    """`regports`: every port's address/data/enable comes from a Register fed by the Input of the same name
    (so the value a port sees is the one of the previous cycle, and 0 in the first)"""
    pyrtl.reset_working_block()
    m = MemBlock(dw, aw, 'mem', asynchronous=True, max_read_ports=None, max_write_ports=None)

    def src(width, name):
        i = Input(width, name)
        if not regports:
            return i
        r = pyrtl.Register(width, 'r_' + name)
        r.next <<= i
        return r
    if cond:
        # the write ports are the branches of one conditional_assignment (branch k taken when wsel == k): each
        # branch keeps its own enable
        sel = Input(2, 'wsel')
        ports = [(src(aw, 'wa%d' % k), src(dw, 'wd%d' % k), src(1, 'we%d' % k)) for k in range(nwr)]
        with pyrtl.conditional_assignment:
            for k, (wa, wd, we) in enumerate(ports):
                with sel == k:
                    m[wa] |= MemBlock.EnabledWrite(wd, we)
    else:
        for k in range(nwr):
            wa, wd, we = src(aw, 'wa%d' % k), src(dw, 'wd%d' % k), src(1, 'we%d' % k)
            m[wa] <<= MemBlock.EnabledWrite(wd, we)
    for k in range(nrd):
        ra = src(aw, 'ra%d' % k)
        o = Output(dw, 'rd%d' % k)
        o <<= m[ra]
    return pyrtl.working_block(), m


def history(rng, aw, dw, nrd, nwr, ncyc):
    steps = []
    # hot addresses alias each other in their low bits (hash buckets, 32/64-bit truncation) and differ in
    # the top bit, so that entries sharing a bucket/limb are written and read back
    base = rng.getrandbits(aw)
    hot = [base, rng.getrandbits(aw)]
    for sh in (8, 16, 32, aw - 1):
        if 0 < sh < aw:
            hot.append(base ^ ((rng.getrandbits(aw - sh) or 1) << sh))
    hot = list(dict.fromkeys(hot))
    if len(hot) > 5:
        hot = hot[:2] + rng.sample(hot[2:], 3)
    for _ in range(ncyc):
        s = {}
        used = set()
        for k in range(nwr):
            a = rng.choice(hot) if rng.random() < 0.7 else rng.getrandbits(aw)
            en = rng.random() < 0.6
            if en and a in used:      # write ports to distinct addresses compose; same address is undefined
                en = False
            if en:
                used.add(a)
            s['wa%d' % k], s['wd%d' % k], s['we%d' % k] = a, gen.rand_value(rng, dw), int(en)
        for k in range(nrd):
            s['ra%d' % k] = rng.choice(hot) if rng.random() < 0.8 else rng.getrandbits(aw)
        steps.append(s)
    return steps


def array_oracle(steps, init, nrd, nwr, dflt=0):
    mem = dict(init)
    out = []
    for s in steps:
        out.append([mem.get(s['ra%d' % k], dflt) for k in range(nrd)])
        for k in range(nwr):
            if s['we%d' % k]:
                mem[s['wa%d' % k]] = s['wd%d' % k]
    return out, mem


def check_history(ctx, aw, dw, nrd, nwr, steps, init, label, regports=False, sims=None, with_passes=True, dflt=0, cond=False):
    """dflt: Simulation/FastSimulation default_value; an unwritten word reads as dflt truncated to the memory's width;
    cond: the write ports are branches of one conditional_assignment selected by the extra input wsel"""
    cond = cond and not regports
    blk, m = mem_design(aw, dw, nrd, nwr, regports, cond)
    if cond:
        steps = [dict(s, wsel=ctx.rng.randrange(4)) for s in steps]
        eff = [dict(s, **{'we%d' % k: int(bool(s['we%d' % k]) and s['wsel'] == k) for k in range(nwr)}) for s in steps]
        ctx.count('conditional-write-ports', nwr)
    else:
        eff = steps if not regports else [{k: 0 for k in steps[0]}] + steps[:-1]
    want, final = array_oracle(eff, init, nrd, nwr, dflt & ((1 << dw) - 1))
    if dflt:
        assert not regports and not with_passes
        sims = [c for c in (sims or SIMS) if c is not pyrtl.CompiledSimulation]
    names = ['rd%d' % k for k in range(nrd)]
    replay = {'kind': 'mem-history', 'aw': aw, 'dw': dw, 'read_ports': nrd, 'write_ports': nwr, 'steps': steps,
              'init': {str(a): v for a, v in init.items()}, 'label': label, 'registered_ports': regports, 'default_value': dflt, 'conditional_ports': cond}
    ok = True
    for simcls in (sims or SIMS):
        real = simrun.run_real(simcls, blk, steps, {}, {m: dict(init)}, dflt, track=None)
        if real['err'] is not None and simcls is pyrtl.CompiledSimulation and aw > 64 and real['err'][1] == 'PyrtlError' \
                and '64 address bits' in real['err'][2]:
            ctx.violation('mem-unsupported:CompiledSimulation:addrwidth>64',
                          'CompiledSimulation refuses a memory with %d address bits (%s)' % (aw, real['err'][2][:80]),
                          dict(replay, simulator=simcls.__name__))
            continue
        if real['err'] is not None:
            ctx.violation('mem-raises:' + simcls.__name__, '%s raised %s on a legal memory history: %s' % (
                simcls.__name__, real['err'][1], real['err'][2]), dict(replay, simulator=simcls.__name__))
            ok = False
            continue
        for c in range(len(steps)):
            got = [real['trace'][n][c] for n in names]
            if got != want[c]:
                ctx.violation('mem-read:' + simcls.__name__,
                              '%s cycle %d read ports return %r, the array (last write in an earlier cycle / initial / 0) gives %r' % (
                                  simcls.__name__, c, got, want[c]), dict(replay, simulator=simcls.__name__, cycle=c))
                ok = False
                break
        mm = real['mem'].get(m.id, {})
        for a, v in final.items():
            if mm.get(a, 0) != v:
                ctx.violation('mem-final:' + simcls.__name__, '%s final content at %d is %r, array has %d' % (
                    simcls.__name__, a, mm.get(a, 0), v), dict(replay, simulator=simcls.__name__))
                ok = False
                break
    # the Lean Spec model, and the design after synthesize / optimize evaluated in it
    variants = [('original', blk)]
    if not with_passes:
        return ok
    try:
        bs = passlib.run_in(blk, lambda: pyrtl.synthesize(update_working_block=False, block=blk))
        variants.append(('synthesized', bs))
        bo = passlib.run_in(blk, lambda: pyrtl.optimize(update_working_block=False, block=blk))
        variants.append(('optimized', bo))
        bso = passlib.run_in(bs, lambda: pyrtl.optimize(update_working_block=False, block=bs))
        variants.append(('synthesized+optimized', bso))
    except Exception as e:  # noqa
        ctx.violation('mem-pass-raises', 'synthesize/optimize raised %s on a memory design: %s' % (type(e).__name__, str(e)[:160]), replay)
        ok = False
    for vname, b in variants:
        tr, resp, _ = passlib.spec_trace(ctx, b, steps, {}, {m.id: init}, watch=names)
        if tr is None:
            ctx.violation('mem-malformed:' + vname, '%s memory design rejected by the model: %s' % (vname, resp.get('err')), replay)
            ok = False
            continue
        for c in range(len(steps)):
            got = [tr[n][c] for n in names]
            if got != want[c]:
                ctx.violation('mem-read:' + vname, '%s design, cycle %d: read ports %r, array %r' % (vname, c, got, want[c]),
                              dict(replay, variant=vname, cycle=c))
                ok = False
                break
    return ok


def repeated_use(ctx, sims=None):
    """Second and later uses inside one process: a simulator constructed twice on the same block with its default
    arguments starts from an empty memory again; maps the caller passes are not modified; a view obtained from
    inspect_mem once follows later writes; CompiledSimulation.run() with several steps at once equals stepping."""
    rng = ctx.rng
    n = 0
    for k in range(ctx.n(10, 40)):
        aw, dw = rng.choice([2, 4, 9]), rng.choice([8, 8, 64, 72])
        nrd, nwr = rng.randint(1, 2), rng.randint(1, 2)
        blk, m = mem_design(aw, dw, nrd, nwr, False)
        names = ['rd%d' % i for i in range(nrd)]
        h1 = history(rng, aw, dw, nrd, nwr, 8)
        h2 = history(rng, aw, dw, nrd, nwr, 8)
        # the second history reads what the first one wrote
        h1[0]['we0'] = 1                      # at least one write, to an address the second history reads
        if nwr > 1 and h1[0].get('wa1') == h1[0]['wa0']:
            h1[0]['we1'] = 0                  # (two enabled ports writing one address in one cycle is outside the property)
        if aw <= 4:
            # the last word of the array is written too (the whole-array view below has to show it)
            h1[-1].update({'we0': 1, 'wa0': (1 << aw) - 1, 'wd0': gen.rand_value(rng, dw) | 1})
            if nwr > 1 and h1[-1].get('wa1') == h1[-1]['wa0']:
                h1[-1]['we1'] = 0
        hot = [s_['wa0'] for s_ in h1 if s_['we0']]
        for s_ in h2:
            if hot and rng.random() < 0.7:
                s_['ra0'] = rng.choice(hot)
        user_map = {m: {a: gen.rand_value(rng, dw) for a in hot[:2]}} if k % 2 else None
        replay = {'kind': 'mem-repeated-use', 'aw': aw, 'dw': dw, 'read_ports': nrd, 'write_ports': nwr, 'first': h1, 'second': h2,
                  'memory_value_map': None if user_map is None else {str(a): v for a, v in user_map[m].items()}}
        pristine = None if user_map is None else dict(user_map[m])
        for simcls in (sims or SIMS):
            # every simulator gets its own copy of the initial contents (some simulators use the dicts they are given)
            user_map = None if pristine is None else {m: dict(pristine)}
            want2, _ = array_oracle(h2, {} if user_map is None else pristine, nrd, nwr)
            try:
                with pyrtl.set_working_block(blk, no_sanity_check=True):
                    sim1 = simcls() if user_map is None else simcls(memory_value_map=user_map)
                    before = None if user_map is None else {a: v for a, v in user_map[m].items()}
                    view = sim1.inspect_mem(m)
                    # the words are read once before any step (a view may not remember what it has shown)
                    for a in hot[:3]:
                        _ = view.get(a, 0) if isinstance(view, dict) else view[a]
                    for s_ in h1:
                        sim1.step(dict(s_))
                    # the view taken before stepping shows the present contents
                    _, final1 = array_oracle(h1, {} if user_map is None else pristine, nrd, nwr)
                    for a in hot[:3]:
                        got = view.get(a, 0) if isinstance(view, dict) else view[a]
                        if got != final1.get(a, 0):
                            ctx.violation('mem-view-stale:' + simcls.__name__, '%s: a view obtained from inspect_mem before %d cycles reports word %d = %r, '
                                          'the array now holds %d' % (simcls.__name__, len(h1), a, got, final1.get(a, 0)),
                                          dict(replay, simulator=simcls.__name__))
                            break
                    if aw <= 4:
                        # the view as a whole (len, iteration, dict(), ==): every non-zero word of the array, the last one too
                        whole = {a: v for a, v in dict(view).items() if v}
                        want_whole = {a: v for a, v in final1.items() if v}
                        if whole != want_whole:
                            ctx.violation('mem-view-whole:' + simcls.__name__, '%s: dict(inspect_mem(mem)) after %d cycles has the non-zero words %r, '
                                          'the array holds %r' % (simcls.__name__, len(h1), sorted(whole.items())[:6], sorted(want_whole.items())[:6]),
                                          dict(replay, simulator=simcls.__name__))
                        elif not isinstance(view, dict):
                            top = (1 << aw) - 1
                            full = {a: final1.get(a, 0) for a in range(1 << aw)}
                            other = dict(full)
                            other[top] ^= 1
                            if len(view) != (1 << aw) or not (view == full) or (view == other):
                                ctx.violation('mem-view-whole:' + simcls.__name__, '%s: the inspect_mem view of a %d-word memory has len %d, '
                                              'view == contents is %s, view == contents-with-the-last-word-changed is %s' % (
                                                  simcls.__name__, 1 << aw, len(view), view == full, view == other),
                                              dict(replay, simulator=simcls.__name__))
                        ctx.count('mem-view-whole', simcls.__name__)
                    # what the trace recorded as the memory's initial contents (used by output_verilog_testbench) is still
                    # what the simulation started from, whatever was written since
                    rec = getattr(sim1.tracer, 'init_memvalue', None)
                    if user_map is not None and isinstance(rec, dict) and m.id in rec and dict(rec[m.id]) != before:
                        ctx.violation('trace-initial-memory:' + simcls.__name__, '%s: after %d cycles the trace says the memory started from %r, '
                                      'the simulation was started from %r' % (simcls.__name__, len(h1), dict(rec[m.id]), before),
                                      dict(replay, simulator=simcls.__name__))
                    if user_map is not None and set(user_map.keys()) != {m}:
                        ctx.violation('mem-map-modified:' + simcls.__name__, '%s added entries to the memory_value_map passed by the caller' % simcls.__name__,
                                      dict(replay, simulator=simcls.__name__))
                    sim2 = simcls() if user_map is None else simcls(memory_value_map={m: dict(before)})
                    tr = {nm: [] for nm in names}
                    if simcls is pyrtl.CompiledSimulation and k % 2 == 0:
                        sim2.run([dict(s_) for s_ in h2])        # all steps in one call
                        for nm in names:
                            tr[nm] = list(sim2.tracer.trace[nm])
                        for iname in h2[0]:
                            if list(sim2.tracer.trace[iname]) != [s_[iname] for s_ in h2]:
                                ctx.violation('run-input-trace:CompiledSimulation', 'CompiledSimulation.run() with %d steps at once traces input %s as %r, '
                                              'the values supplied are %r' % (len(h2), iname, list(sim2.tracer.trace[iname]), [s_[iname] for s_ in h2]),
                                              dict(replay, simulator=simcls.__name__))
                                break
                    else:
                        for s_ in h2:
                            sim2.step(dict(s_))
                            for nm in names:
                                tr[nm].append(sim2.inspect(nm))
            except Exception as e:  # noqa
                ctx.violation('mem-repeated-use-raises:' + simcls.__name__, '%s raised %s when a second simulator was built on the same block: %s' % (
                    simcls.__name__, type(e).__name__, str(e)[:160]), dict(replay, simulator=simcls.__name__))
                continue
            n += 1
            for c in range(len(h2)):
                got = [tr[nm][c] for nm in names]
                if got != want2[c]:
                    ctx.violation('mem-second-simulation:' + simcls.__name__, '%s: the second simulator built on the same block (%s) reads %r in cycle %d, '
                                  'a fresh array gives %r' % (simcls.__name__, 'default arguments' if user_map is None else 'same initial map',
                                                              got, c, want2[c]), dict(replay, simulator=simcls.__name__, cycle=c))
                    break
    return n


def special_shapes(ctx):
    """shapes a plain port generator does not produce: write ports whose enable is a constant (0 or 1), and two
    memories that carry the same user-given name (a helper instantiated twice)"""
    rng = ctx.rng
    n = 0
    for k in range(ctx.n(6, 60)):
        pyrtl.reset_working_block()
        dw, aw = rng.choice([4, 8, 70]), 2
        mems = [MemBlock(dw, aw, 'scratch', asynchronous=True, max_read_ports=None, max_write_ports=None) for _ in range(2)]
        for j, m in enumerate(mems):
            wa, wd, we = Input(aw, 'wa%d' % j), Input(dw, 'wd%d' % j), Input(1, 'we%d' % j)
            m[wa] <<= MemBlock.EnabledWrite(wd, we)
            ca, cd = Input(aw, 'ca%d' % j), Input(dw, 'cd%d' % j)
            m[ca] <<= MemBlock.EnabledWrite(cd, Const(j, 1))        # memory 0: constant-0 enable, memory 1: constant-1 enable
            o = Output(dw, 'rd%d' % j)
            o <<= m[Input(aw, 'ra%d' % j)]
        blk = pyrtl.working_block()
        init = [{a: gen.rand_value(rng, dw) for a in range(4) if rng.random() < 0.6} for _ in mems]
        steps = []
        for _ in range(8):
            st = {}
            for j in range(2):
                st.update({'wa%d' % j: rng.randrange(4), 'wd%d' % j: gen.rand_value(rng, dw), 'we%d' % j: rng.randrange(2),
                           'ca%d' % j: rng.randrange(4), 'cd%d' % j: gen.rand_value(rng, dw), 'ra%d' % j: rng.randrange(4)})
                if j == 1 and st['we1'] and st['wa1'] == st['ca1']:
                    st['we1'] = 0          # two enabled ports on one word: unspecified
            steps.append(st)
        arrays = [dict(i) for i in init]
        want = []
        for st in steps:
            want.append([arrays[j].get(st['ra%d' % j], 0) for j in range(2)])
            for j in range(2):
                if st['we%d' % j]:
                    arrays[j][st['wa%d' % j]] = st['wd%d' % j]
                if j == 1:
                    arrays[j][st['ca%d' % j]] = st['cd%d' % j]
        replay = {'kind': 'mem-special', 'dw': dw, 'steps': steps, 'init': [{str(a): v for a, v in i.items()} for i in init]}
        variants = [('original', blk)]
        try:
            variants.append(('optimized', passlib.run_in(blk, lambda: pyrtl.optimize(update_working_block=False, block=blk))))
        except Exception as e:  # noqa
            ctx.violation('mem-pass-raises', 'optimize raised %s on a memory design: %s' % (type(e).__name__, str(e)[:120]), replay)
        for vname, vb in variants:
            vm = sorted({nn.op_param[1] for nn in vb.logic_subset('m@')}, key=lambda m_: m_.id)
            for simcls in SIMS:
                real = simrun.run_real(simcls, vb, steps, {}, {vm[j]: dict(init[j]) for j in range(2)}, 0, track=None)
                n += 1
                if real['err'] is not None:
                    ctx.violation('mem-raises:' + simcls.__name__, '%s raised %s on two same-named memories / constant enables (%s): %s' % (
                        simcls.__name__, real['err'][1], vname, real['err'][2][:100]), dict(replay, simulator=simcls.__name__))
                    continue
                for c in range(len(steps)):
                    got = [real['trace']['rd%d' % j][c] for j in range(2)]
                    if got != want[c]:
                        ctx.violation('mem-special:' + simcls.__name__, '%s (%s design), two memories named alike with constant-enable ports, cycle %d: '
                                      'reads %r, arrays give %r' % (simcls.__name__, vname, c, got, want[c]), dict(replay, simulator=simcls.__name__, cycle=c))
                        break
    return n


def exhaustive_two_word(ctx):
    """addrwidth 1, bitwidth <= 2: every reachable content x every single-port operation (a test)"""
    n = 0
    for dw in (1, 2):
        blk, m = mem_design(1, dw, 1, 1)
        contents = list(itertools.product(range(1 << dw), repeat=2))
        ops = list(itertools.product([0, 1], [0, 1], range(1 << dw), [0, 1]))   # we, wa, wd, ra
        for simcls in SIMS[:2]:
            for st in contents:
                for (we, wa, wd, ra) in ops:
                    init = {0: st[0], 1: st[1]}
                    steps = [{'we0': we, 'wa0': wa, 'wd0': wd, 'ra0': ra}, {'we0': 0, 'wa0': 0, 'wd0': 0, 'ra0': 0},
                             {'we0': 0, 'wa0': 0, 'wd0': 0, 'ra0': 1}]
                    real = simrun.run_real(simcls, blk, steps, {}, {m: dict(init)}, 0, track=None)
                    want, _ = array_oracle(steps, init, 1, 1)
                    got = [[real['trace']['rd0'][c]] for c in range(3)]
                    n += 1
                    if got != want:
                        ctx.violation('mem-exhaustive:' + simcls.__name__, '%s 2-word memory content %r op %r: reads %r, array %r' % (
                            simcls.__name__, st, (we, wa, wd, ra), got, want),
                            {'kind': 'mem-2word', 'dw': dw, 'content': st, 'op': [we, wa, wd, ra]})
                        return n
        # CompiledSimulation: one instance, contents set by two write cycles
        sim = pyrtl.CompiledSimulation(block=blk)
        k = 0
        for st in contents:
            for (we, wa, wd, ra) in ops:
                seq = [{'we0': 1, 'wa0': 0, 'wd0': st[0], 'ra0': 0}, {'we0': 1, 'wa0': 1, 'wd0': st[1], 'ra0': 0},
                       {'we0': we, 'wa0': wa, 'wd0': wd, 'ra0': ra}, {'we0': 0, 'wa0': 0, 'wd0': 0, 'ra0': 0},
                       {'we0': 0, 'wa0': 0, 'wd0': 0, 'ra0': 1}]
                sim.run(seq)
                got = sim.tracer.trace['rd0'][k + 2:k + 5]
                k += 5
                after = list(st)
                if we:
                    after[wa] = wd
                want = [st[ra], after[0], after[1]]
                n += 1
                if got != want:
                    ctx.violation('mem-exhaustive:CompiledSimulation', 'CompiledSimulation 2-word memory content %r op %r: reads %r, array %r' % (
                        st, (we, wa, wd, ra), got, want), {'kind': 'mem-2word', 'dw': dw, 'content': st, 'op': [we, wa, wd, ra]})
                    return n
    return n


def rom_cases(ctx, rng):
    n = 0
    for _ in range(ctx.n(20, 200)):
        aw = rng.choice([1, 2, 3, 5])
        dw = rng.choice([1, 4, 8, 33, 64, 70])
        size = 1 << aw
        vals = [rng.getrandbits(dw) for _ in range(size)]
        kind = rng.choice(['list', 'dict', 'func', 'shortlist', 'sparsedict'])
        if kind == 'list':
            data, pad, defined = list(vals), False, set(range(size))
        elif kind == 'shortlist':
            k = max(1, size // 2)
            data, pad, defined = list(vals[:k]), rng.random() < 0.5, set(range(k))
        elif kind == 'dict':
            data, pad, defined = {a: vals[a] for a in range(size)}, False, set(range(size))
        elif kind == 'sparsedict':
            keys = set(a for a in range(size) if rng.random() < 0.6) or {0}
            data, pad, defined = {a: vals[a] for a in keys}, rng.random() < 0.5, keys
        else:
            tv = tuple(vals)
            data, pad, defined = (lambda a, tv=tv: tv[a]), False, set(range(size))
        pyrtl.reset_working_block()
        multi = rng.random() < 0.3       # more read ports than max_read_ports: build_new_roms makes copies of the ROM
        rom = RomBlock(dw, aw, data, 'rom', asynchronous=True, pad_with_zeros=pad, max_read_ports=2 if multi else None,
                       build_new_roms=multi)
        ra = Input(aw, 'ra')
        o = Output(dw, 'rd')
        o <<= rom[ra]
        extra_outs = []
        if multi:
            for nm_ in ('rd_b', 'rd_c'):
                o_ = Output(dw, nm_)
                o_ <<= rom[ra]
                extra_outs.append(nm_)
        blk = pyrtl.working_block()
        addrs = list(range(size)) if size <= 8 else [rng.randrange(size) for _ in range(8)]
        for simcls in SIMS:
            if simcls is pyrtl.CompiledSimulation and not (pad or defined == set(range(size))):
                continue   # the C backend tabulates the whole ROM at construction
            for a in addrs:
                real = simrun.run_real(simcls, blk, [{'ra': a}], {}, {}, 0, track=None)
                n += 1
                should_ok = a in defined or pad
                want = vals[a] if a in defined else 0
                if should_ok:
                    if real['err'] is None and any(real['trace'][x_][0] != want for x_ in extra_outs):
                        ctx.violation('rom-read-copy:' + simcls.__name__, '%s ROM(%s data) read through a port beyond max_read_ports (build_new_roms) at %d '
                                      '-> %r, romdata[%d] = %d' % (simcls.__name__, kind, a, [real['trace'][x_][0] for x_ in extra_outs], a, want),
                                      {'kind': 'rom', 'data': kind, 'aw': aw, 'dw': dw, 'addr': a, 'build_new_roms': True})
                        break
                    if real['err'] is not None or real['trace']['rd'][0] != want:
                        ctx.violation('rom-read:' + simcls.__name__, '%s ROM(%s data) at %d -> %r (err %r), romdata[%d] = %d' % (
                            simcls.__name__, kind, a, real['trace'].get('rd'), real['err'], a, want),
                            {'kind': 'rom', 'data': kind, 'aw': aw, 'dw': dw, 'addr': a})
                        break
                else:
                    if real['err'] is None or real['err'][1] != 'PyrtlError':
                        ctx.violation('rom-undefined-not-refused:' + simcls.__name__,
                                      '%s reads undefined ROM address %d of %s data without PyrtlError (got %r)' % (
                                          simcls.__name__, a, kind, real['trace'].get('rd')),
                                      {'kind': 'rom', 'data': kind, 'aw': aw, 'dw': dw, 'addr': a})
                        break
        # ... and after copy_block / synthesize / optimize (the property names them)
        okaddrs = [a for a in addrs if a in defined or pad]
        variants = []
        try:
            variants.append(('copy_block', passlib.run_in(blk, lambda: pyrtl.copy_block(blk, update_working_block=False))))
            bs = passlib.run_in(blk, lambda: pyrtl.synthesize(update_working_block=False, block=blk))
            variants.append(('synthesize', bs))
            variants.append(('synthesize+optimize', passlib.run_in(bs, lambda: pyrtl.optimize(update_working_block=False, block=bs))))
        except Exception as e:  # noqa
            ctx.violation('rom-pass-raises', 'copy/synthesize/optimize of a ROM design (%s data, pad_with_zeros=%s) raised %s: %s' % (
                kind, pad, type(e).__name__, str(e)[:120]), {'kind': 'rom', 'data': kind, 'aw': aw, 'dw': dw})
        for vname, vb in variants:
            inm = sorted(w.name for w in vb.wirevector_subset(Input))
            bad = None
            for a in okaddrs:
                if len(inm) == 1:
                    st = {inm[0]: a}
                else:
                    st = {nm: (a >> int(nm[nm.index('[') + 1:-1])) & 1 for nm in inm}
                real = simrun.run_real(pyrtl.Simulation, vb, [st], {}, {}, 0, track=None)
                n += 1
                want = vals[a] if a in defined else 0
                outs = sorted(w.name for w in vb.wirevector_subset(Output))
                if real['err'] is not None:
                    bad = (a, 'raises %s' % (real['err'][2][:60],), want)
                    break
                if 'rd' in outs:
                    got = real['trace']['rd'][0]
                    if any(real['trace'][x_][0] != got for x_ in outs if x_ in ('rd_b', 'rd_c')):
                        got = [real['trace'][x_][0] for x_ in outs]
                else:
                    got = sum(real['trace'][nm][0] << int(nm[nm.index('[') + 1:-1]) for nm in outs)
                if got != want:
                    bad = (a, got, want)
                    break
            if bad:
                ctx.violation('rom-read-after:' + vname, 'ROM (%s data, pad_with_zeros=%s) after %s: address %d gives %r, romdata gives %d' % (
                    kind, pad, vname, bad[0], bad[1], bad[2]), {'kind': 'rom', 'data': kind, 'aw': aw, 'dw': dw, 'addr': bad[0], 'after': vname})
        ctx.count('rom-data-kind', kind)
    # a ROM word that does not fit its bitwidth must be refused
    pyrtl.reset_working_block()
    rom = RomBlock(2, 1, [1, 9], 'rom', asynchronous=True)
    ra = Input(1, 'ra')
    o = Output(2, 'rd')
    o <<= rom[ra]
    for simcls in SIMS[:2]:
        real = simrun.run_real(simcls, pyrtl.working_block(), [{'ra': 1}], {}, {}, 0, track=None)
        if real['err'] is None:
            ctx.violation('rom-oversize-not-refused:' + simcls.__name__, 'ROM word 9 in a 2-bit ROM was simulated as %r' % real['trace'].get('rd'),
                          {'kind': 'rom-oversize'})
    return n


def memories_across_reset(ctx):
    """a design kept in its own Block; the user resets the working block in between (for something unrelated) and then
    adds a second memory to the design: the two memories stay two arrays in every simulator"""
    rng = ctx.rng
    n = 0
    for k in range(ctx.n(4, 20)):
        pyrtl.reset_working_block()
        design = pyrtl.Block()
        with pyrtl.set_working_block(design, no_sanity_check=True):
            wa, wd, we, ra = Input(2, 'wa'), Input(8, 'wd'), Input(1, 'we'), Input(2, 'ra')
            log = MemBlock(8, 2, 'log', asynchronous=True)
            log[wa] <<= MemBlock.EnabledWrite(wd, we)
            o1 = Output(8, 'o_log')
            o1 <<= log[ra]
        for _ in range(rng.randint(1, 2)):
            pyrtl.reset_working_block()          # unrelated work elsewhere
            junk = MemBlock(4, 1, 'junk') if rng.random() < 0.5 else None
            del junk
        with pyrtl.set_working_block(design, no_sanity_check=True):
            shadow = MemBlock(8, 2, 'shadow', asynchronous=True)
            we2 = Input(1, 'we2')
            shadow[wa] <<= MemBlock.EnabledWrite(wd, we2)
            o2 = Output(8, 'o_shadow')
            o2 <<= shadow[ra]
        L, S = [0] * 4, [0] * 4
        steps, want = [], []
        for c in range(8):
            st = {'wa': rng.randrange(4), 'wd': rng.randrange(1, 256), 'we': rng.randrange(2), 'we2': int(rng.random() < 0.25), 'ra': rng.randrange(4)}
            steps.append(st)
            want.append((L[st['ra']], S[st['ra']]))
            if st['we']:
                L[st['wa']] = st['wd']
            if st['we2']:
                S[st['wa']] = st['wd']
        for simcls in SIMS:
            real = simrun.run_real(simcls, design, steps, {}, {}, 0, track=None)
            n += 1
            replay = {'kind': 'memories-across-reset', 'steps': steps, 'simulator': simcls.__name__}
            if real['err'] is not None:
                ctx.violation('mem-across-reset-raises:' + simcls.__name__, '%s raised %s: %s' % (simcls.__name__, real['err'][1], real['err'][2]), replay)
                continue
            got = list(zip(real['trace']['o_log'], real['trace']['o_shadow']))
            if got != want:
                c = next(i for i in range(len(want)) if got[i] != want[i])
                ctx.violation('mem-across-reset:' + simcls.__name__, '%s: two memories of one design, the second created after a reset_working_block(): '
                              'cycle %d reads (log, shadow) = %r, the arrays hold %r' % (simcls.__name__, c, got[c], want[c]), dict(replay, cycle=c))
    return n


def main(ctx):
    proofs_ok = proof_gate(ctx, gen_modules=[])
    rng = ctx.rng
    n = ctx.n(60, 1200)
    agree = 0
    for k in ctx.loop(n):
        aw = rng.choice([1, 2, 3, 5, 9, 9, 10, 16, 33, 64, 70] if k % 2 == 0 else [1, 2, 3])
        dw = rng.choice([1, 2, 7, 8, 32, 63, 64, 65, 70])
        nrd, nwr = rng.randint(1, 3), rng.randint(1, 3)
        steps = history(rng, aw, dw, nrd, nwr, rng.choice([4, 8, 12, 16]))
        size = 1 << aw
        addrs = range(size) if size <= 8 else set(s['ra0'] for s in steps) | {rng.getrandbits(aw) for _ in range(3)}
        init = {a: gen.rand_value(rng, dw) for a in addrs if rng.random() < 0.5}
        if aw > 64:
            init = {}
        regports = (k % 4 == 1)
        ok = check_history(ctx, aw, dw, nrd, nwr, steps, init, 'hist#%d' % k, regports, cond=(k % 4 == 2))
        if k % 5 == 3 and aw <= 64:
            # the same history with a non-zero default_value (sometimes wider than the word): unwritten words read as
            # its low bits in Simulation and FastSimulation
            dv = rng.choice([1, (1 << dw) - 1, rng.getrandbits(dw) | 1, rng.getrandbits(dw + 3) | (1 << dw)])
            ok = check_history(ctx, aw, dw, nrd, nwr, steps, init, 'hist-default#%d' % k, False, with_passes=False, dflt=dv) and ok
            ctx.count('default_value', 'wider' if dv >> dw else 'fits')
        ctx.count('ports-from-registers', regports)
        agree += ok
        ctx.case((aw, dw, nrd, nwr, len(steps)), nontrivial=True)
        ctx.count('addrwidth', aw)
        ctx.count('bitwidth-limbs', (dw + 63) // 64)
        ctx.count('ports', '%dr%dw' % (nrd, nwr))
        ctx.sample({'aw': aw, 'dw': dw, 'read_ports': nrd, 'write_ports': nwr, 'cycles': len(steps), 'initial_words': len(init)})
        if len(ctx.violations) >= 5:
            break
    ctx.evaluations += special_shapes(ctx)
    ctx.evaluations += memories_across_reset(ctx)
    ctx.evaluations += repeated_use(ctx)
    memsynth.several_memories(ctx, ctx.n(6, 40), same_name=False)
    ex = exhaustive_two_word(ctx)
    ctx.evaluations += ex
    ctx.extra['exhaustive_two_word_transitions'] = ex
    ctx.extra['exhaustive'] = False
    rn = rom_cases(ctx, rng)
    ctx.evaluations += rn
    ctx.oblige('property:memories and ROMs are arrays in 3 simulators, the Spec model, and after synthesize/optimize',
               not ctx.violations, '%d/%d histories, %d two-word transitions, %d ROM reads' % (agree, n, ex, rn))
    return conclude(ctx, rule='random histories (hot addresses, enabled/disabled writes, write ports to distinct addresses, 1-3 read and '
                    'write ports, addr widths 1..70, data widths 1..70, initial contents) x {Simulation, FastSimulation, '
                    'CompiledSimulation, Lean Spec, synthesized, optimized}; exhaustive content x operation for a 2-word memory '
                    '(a test); ROMs with list/dict/function/sparse data; distinct = (aw, dw, ports, cycles)')
