"""C09 — lowering / restructuring passes preserve behaviour and meet their postconditions.

Oracle: Spec.run (Lean) before/after on every Output; sanity_check; the stated postcondition
evaluated on the real result.  Proofs: Proofs/Props/C09.lean — gate rewrite rules (regenerated from
passes.py) are sound for all inputs; two-way concat / one-bit selects / fan-out trees preserve values."""
import pyrtl
from pyrtl import Input, Output, Register, Const
from pyrtl import analysis
from vlib import gen, simrun, passlib
from vlib.common import proof_gate, conclude
from vlib.serialize import Ser

GATE_PASSES = {
    'nand_synth': lambda b: pyrtl.nand_synth(block=b),
    'and_inverter_synth': lambda b: pyrtl.and_inverter_synth(block=b),
}
GENERIC_PASSES = {
    'two_way_concat': lambda b: pyrtl.two_way_concat(block=b),
    'one_bit_selects': lambda b: pyrtl.one_bit_selects(block=b),
    'direct_connect_outputs': lambda b: pyrtl.direct_connect_outputs(block=b),
    'two_way_fanout': lambda b: pyrtl.two_way_fanout(block=b),
}
ALL = dict(GATE_PASSES, **GENERIC_PASSES)


def postcondition(pname, blk):
    src, dst = blk.net_connections()
    if pname == 'nand_synth':
        bad = [n for n in blk.logic if n.op not in '~nrwcsm@']
        return 'gate other than NAND/NOT remains: %s' % str(bad[0]).strip() if bad else None
    if pname == 'and_inverter_synth':
        bad = [n for n in blk.logic if n.op not in '~&rwcsm@']
        return 'gate other than AND/NOT remains: %s' % str(bad[0]).strip() if bad else None
    if pname == 'two_way_concat':
        bad = [n for n in blk.logic if n.op == 'c' and len(n.args) > 2]
        return 'concat with %d operands remains' % len(bad[0].args) if bad else None
    if pname == 'one_bit_selects':
        bad = [n for n in blk.logic if n.op == 's' and len(n.op_param) != 1]
        return 'select of %d bits remains' % len(bad[0].op_param) if bad else None
    if pname == 'direct_connect_outputs':
        for n in blk.logic:
            if n.op == 'w' and isinstance(n.dests[0], Output):
                a = n.args[0]
                prod = src.get(a)
                if prod is not None and prod.op not in 'r@' and len(dst.get(a, [])) == 1 \
                        and not isinstance(a, (Input, Const, Register)):
                    return 'redundant w net before Output %s (driven by a single-reader %s net)' % (n.dests[0].name, prod.op)
        return None
    if pname == 'two_way_fanout':
        cnt = {}
        for n in blk.logic:
            for a in n.args:
                cnt[a] = cnt.get(a, 0) + 1
        for w, f in cnt.items():
            if f > 2 and not isinstance(w, Output):
                return 'wire %s is read by %d net arguments' % (w.name, f)
        return None
    return None


LOWER_RULES = ('nand_synth', 'and_inverter_synth', 'two_way_concat', 'one_bit_selects')


def _canon(nets, is_orig, name_of, width_of, op_of):
    """destination-rooted expression trees with the temporaries inlined: {original dest name: tree}, [state nets]"""
    prod = {}
    for n in nets:
        op, par, args, dests = op_of(n)
        if op not in 'r@':
            for d in dests:
                prod[d] = n

    def tree(w, depth=0):
        if is_orig(w):
            return ('wire', name_of(w))
        if w not in prod or depth > 200:
            return ('undriven-temp', width_of(w))
        op, par, args, _ = op_of(prod[w])
        return (op, par, width_of(w), tuple(tree(a, depth + 1) for a in args))
    out, state = {}, []
    for n in nets:
        op, par, args, dests = op_of(n)
        if op == '@':
            state.append(('@', par, tuple(tree(a) for a in args)))
        elif is_orig(dests[0]):
            key = name_of(dests[0])
            val = (op, par, tuple(tree(a) for a in args))
            if key in out:
                return None, 'two drivers of %s' % key
            out[key] = val
    return out, sorted(state, key=repr)


def model_tie(ctx, pname, src, work):
    """the block the real pass produced = the block Lean's LowerNet.lowerBlock produces, up to the names of the
    temporaries (structural comparison of destination-rooted expression trees)"""
    ser = Ser(src)
    resp = ctx.driver.ask({'cmd': 'lower', 'rule': pname, 'block': ser.data})
    if not resp.get('ok'):
        raise RuntimeError('lower model: %s' % resp)
    ctx.tie_n = getattr(ctx, 'tie_n', 0) + 1
    if not resp['wf']:
        ctx.tie_notwf = getattr(ctx, 'tie_notwf', 0) + 1
    if not resp['topo']:
        ctx.tie_nottopo = getattr(ctx, 'tie_nottopo', 0) + 1
    size = resp['size']
    tmpw = {w: bw for w, bw in resp['tmpw']}
    memname = {mid: m.name for mid, m in ser.mems.items()}

    def m_op(n):
        par = n.get('p')
        if n['op'] in 'm@':
            par = memname.get(par, par)
        elif n['op'] == 's':
            par = tuple(par)
        return n['op'], par, n['a'], n['d']
    want = _canon(resp['nets'], lambda w: w < size, lambda w: ser.wires[w].name, lambda w: tmpw.get(w), m_op)
    orig = {w.name for w in src.wirevector_set}

    def r_op(n):
        par = n.op_param
        if n.op in 'm@':
            par = par[1].name
        elif n.op == 's':
            par = tuple(int(x) for x in par)
        return n.op, par, n.args, n.dests
    got = _canon(list(work.logic), lambda w: w.name in orig, lambda w: w.name, lambda w: w.bitwidth, r_op)
    if want != got:
        ctx.tie_bad = getattr(ctx, 'tie_bad', 0) + 1
        if not getattr(ctx, 'tie_first', None):
            diff = None
            if want[0] is not None and got[0] is not None:
                for k in sorted(set(want[0]) | set(got[0])):
                    if want[0].get(k) != got[0].get(k):
                        diff = 'dest %s: model %r, pass %r' % (k, want[0].get(k), got[0].get(k))
                        break
            ctx.tie_first = '%s: %s' % (pname, str(diff or (want[1], got[1]))[:400])
        return False
    return True


def dco_tie(ctx, src, work):
    """the block direct_connect_outputs produced = Lean's Dco.directConnectOutputs, net by net; the chain of blocks the
    model pass goes through satisfies the side conditions of direct_connect_outputs_run_eq"""
    ser = Ser(src)
    resp = ctx.driver.ask({'cmd': 'dco', 'block': ser.data})
    if not resp.get('ok'):
        raise RuntimeError('dco model: %s' % resp)
    ctx.dco_n = getattr(ctx, 'dco_n', 0) + 1
    if not resp['chain_ok']:
        ctx.dco_notok = getattr(ctx, 'dco_notok', 0) + 1
    memname = {mid: m.name for mid, m in ser.mems.items()}
    want = []
    for n in resp['nets']:
        par = n.get('p')
        if n['op'] in 'm@':
            par = memname.get(par, par)
        elif n['op'] == 's':
            par = tuple(par)
        want.append((n['op'], par, tuple(ser.wires[a].name for a in n['a']), tuple(ser.wires[d].name for d in n['d'])))
    got = []
    for n in work.logic:
        par = n.op_param
        if n.op in 'm@':
            par = par[1].name
        elif n.op == 's':
            par = tuple(int(x) for x in par)
        got.append((n.op, par, tuple(a.name for a in n.args), tuple(d.name for d in n.dests)))
    if sorted(set(want), key=repr) != sorted(set(got), key=repr):      # Block.logic is a set of value-compared tuples
        ctx.dco_bad = getattr(ctx, 'dco_bad', 0) + 1
        if not getattr(ctx, 'dco_first', None):
            only_m = [x for x in want if x not in got][:2]
            only_r = [x for x in got if x not in want][:2]
            ctx.dco_first = 'only in model %r, only in pass output %r' % (only_m, only_r)


def fanout_tie(ctx, src, work):
    """two_way_fanout read backwards: removing the `w` nets it inserted (each leaf replaced by the root of its tree) is a
    justified alias elimination on the block AFTER the pass (Lean: Alias.schedsOkB) whose result is the block BEFORE it"""
    from checks.c04 import _real_nets, _model_nets
    ser = Ser(work)
    orig = {w.name for w in src.wirevector_set}
    new_w = {n.dests[0]: n.args[0] for n in ser.nets if n.op == 'w' and n.dests[0].name not in orig}
    removed = [i for i, n in enumerate(ser.nets) if n.op == 'w' and n.dests[0].name not in orig]

    def root(w, depth=0):
        return w if w not in new_w or depth > 500 else root(new_w[w], depth + 1)
    sigma = [[ser.wid[ser.nets[i].dests[0]], ser.wid[root(ser.nets[i].dests[0])]] for i in removed]
    resp = ctx.driver.ask({'cmd': 'alias', 'block': ser.data, 'removed': removed, 'sigma': sigma})
    if not resp.get('ok'):
        raise RuntimeError('alias model: %s' % resp)
    ctx.fo_n = getattr(ctx, 'fo_n', 0) + 1
    ctx.count('fanout-tie-inserted-w-nets', min(len(removed), 6))
    if not resp['scheds_ok']:
        ctx.fo_notok = getattr(ctx, 'fo_notok', 0) + 1
        ctx.fo_first = getattr(ctx, 'fo_first', None) or ('certificate not accepted (cert_ok=%s), %d inserted w nets' % (resp['cert_ok'], len(removed)))
    memname = {mid: m.name for mid, m in ser.mems.items()}
    want = _model_nets(resp['nets'], ser.data['wires'], [w_.name for w_ in ser.wires], memname)
    got = _real_nets(src)
    if want != got:
        ctx.fo_bad = getattr(ctx, 'fo_bad', 0) + 1
        ctx.fo_first = getattr(ctx, 'fo_first', None) or ('only in model %r, only in the block before the pass %r' % (
            [x for x in want if x not in got][:2], [x for x in got if x not in want][:2]))


def check_seq(ctx, label, src, seq, steps, memmap_by_id, replay0):
    replay = dict(replay0, variant=label, passes=list(seq), block=Ser(src).data)
    ins0, outs0 = passlib.io_names(src)
    work = passlib.private_copy(src)
    # every pass is given `block=` explicitly; in a third of the runs the working block is an unrelated one
    foreign = ctx.rng.random() < 0.35
    replay['foreign_working_block'] = foreign
    ctx.count('working-block', 'foreign' if foreign else 'same')
    for pname in seq:
        try:
            passlib.run_in(work, lambda: ALL[pname](work), foreign=foreign)
        except Exception as e:  # noqa
            ctx.violation('%s-raises:%s' % (pname, simrun.err_class(e)),
                          '%s (sequence %s, %s block) raised %s: %s' % (pname, '>'.join(seq), label, type(e).__name__, str(e)[:200]), replay)
            return False
        try:
            work.sanity_check()
        except Exception as e:  # noqa
            ctx.violation('%s-malformed' % pname, 'block after %s (sequence %s, %s) fails sanity_check: %s' % (
                pname, '>'.join(seq), label, str(e)[:200]), replay)
            return False
        if len(seq) == 1 and pname in LOWER_RULES:
            model_tie(ctx, pname, src, work)
        if len(seq) == 1 and pname == 'two_way_fanout':
            if len(work.logic) <= 70:
                fanout_tie(ctx, src, work)
            else:
                ctx.count('fanout-tie-skipped-large-block', 'n')
        if len(seq) == 1 and pname == 'direct_connect_outputs':
            if len(src.logic) <= 90:
                dco_tie(ctx, src, work)      # the model (written for proofs, not speed) is cubic in the net count
            else:
                ctx.count('dco-tie-skipped-large-block', 'n')
        pc = postcondition(pname, work)
        if pc:
            ctx.violation('%s-postcondition' % pname, '%s: %s' % (pname, pc), replay)
            return False
    ins1, outs1 = passlib.io_names(work)
    if ins1 != ins0 or outs1 != outs0:
        ctx.violation('%s-io-changed' % seq[-1], 'Input/Output set changed by %s' % '>'.join(seq), replay)
        return False
    base, bresp, _ = passlib.spec_trace(ctx, src, steps, {}, memmap_by_id, watch=outs0)
    got, gresp, _ = passlib.spec_trace(ctx, work, steps, {}, memmap_by_id, watch=outs0)
    if base is None:
        raise RuntimeError('spec rejected source: %s' % bresp)
    if got is None:
        ctx.violation('%s-malformed' % seq[-1], 'block after %s rejected by the model: %s' % ('>'.join(seq), gresp.get('err')), replay)
        return False
    if bresp.get('romfault'):
        return True
    ncyc = None if bresp.get('wconflict') is None else bresp['wconflict'] + 1
    mm = simrun.compare_traces(base, got, names=outs0, ncycles=ncyc)
    if mm:
        # attribute to the first pass of the sequence that changes behaviour
        culprit = seq[-1]
        w2 = passlib.private_copy(src)
        for pname in seq:
            passlib.run_in(w2, lambda: ALL[pname](w2))
            g2, _, _ = passlib.spec_trace(ctx, w2, steps, {}, memmap_by_id, watch=outs0)
            if g2 is None or simrun.compare_traces(base, g2, names=outs0, ncycles=ncyc):
                culprit = pname
                break
        ctx.violation('%s-changes-output' % culprit,
                      '%s (sequence %s, %s block): Output %s cycle %d was %d, now %d' % (
                          culprit, '>'.join(seq), label, mm[0], mm[1], mm[2], mm[3]), dict(replay, mismatch=mm))
        return False
    return True


def failed_pass_keeps_working_block(ctx):
    """a gate-basis pass refuses a block outside its precondition (documented PyrtlError): afterwards the working block is
    still the one the user was working on, so a later pass without `block=` acts on that one"""
    rng = ctx.rng
    for k in range(ctx.n(4, 20)):
        pyrtl.reset_working_block()
        w_blk = pyrtl.working_block()
        a, b_, c = Input(2, 'a'), Input(2, 'b'), Input(2, 'c')
        o = Output(6, 'o')
        o <<= pyrtl.concat(a, b_, c)
        other = pyrtl.Block()
        with pyrtl.set_working_block(other, no_sanity_check=True):
            x, y = Input(3, 'x'), Input(3, 'y')
            s_ = Output(4, 's')
            s_ <<= (x + y) if rng.random() < 0.5 else (x - y)
        pname = rng.choice(sorted(GATE_PASSES))
        try:
            GATE_PASSES[pname](other)
            ctx.count('failed-pass', 'accepted')      # (would be a C09 precondition matter, not this sub-check's)
        except pyrtl.PyrtlError:
            ctx.count('failed-pass', 'refused')
        except Exception as e:  # noqa
            ctx.violation('%s-raises:%s' % (pname, type(e).__name__), '%s on a word-level block raised %s' % (pname, type(e).__name__), {'kind': 'failed-pass'})
            continue
        ctx.evaluations += 1
        if pyrtl.working_block() is not w_blk:
            ctx.violation('%s-working-block-changed' % pname, 'after %s(block=B) refused B (PyrtlError), the working block is no longer the block '
                          'the user was working on' % pname, {'kind': 'failed-pass', 'pass': pname})
            pyrtl.set_working_block(w_blk, no_sanity_check=True)
            continue
        pyrtl.two_way_concat()
        if any(n.op == 'c' and len(n.args) > 2 for n in w_blk.logic):
            ctx.violation('two_way_concat-postcondition', 'two_way_concat() after a refused %s(block=B) left a 3-operand concat in the working block' % pname,
                          {'kind': 'failed-pass', 'pass': pname})


def main(ctx):
    proofs_ok = proof_gate(ctx, gen_modules=['GateRules'])
    n = ctx.n(70, 2500)
    if not proofs_ok:
        n *= 3
    agree = total = 0
    gnames = sorted(GENERIC_PASSES)
    for k in ctx.loop(n):
        rng = ctx.rng
        d = gen.rand_design(rng, profile='small' if k % 3 else 'med', nops=rng.randint(3, 12), max_total=40,
                            wide_mem=False, raw=False, outputs='most')
        # registers and memory reads feeding Outputs directly, wide fan-out
        with pyrtl.set_working_block(d.block, no_sanity_check=True):
            for r in d.regs:
                o = Output(len(r), 'oreg_' + r.name)
                o <<= r
                d.outputs.append(o)
            if d.inputs and rng.random() < 0.5:
                # a fresh wire whose only reader is one net that reads it three or more times
                t = d.inputs[0] & d.inputs[-1][0:1].sign_extended(len(d.inputs[0])) if len(d.inputs[0]) > 1 else ~d.inputs[0]
                o = Output(name='orep')
                o <<= pyrtl.concat(*([t] * rng.randint(3, 5)))
                d.outputs.append(o)
            wide_ins = [w for w in d.inputs if len(w) >= 2]
            if wide_ins and rng.random() < 0.6:
                # a select taking exactly as many bits as its source has, but not the identity: reversal, rotation,
                # a random permutation, or repeated indices
                a = rng.choice(wide_ins)
                n_ = len(a)
                how = rng.randrange(4)
                if how == 0:
                    idx = list(range(n_))[::-1]
                elif how == 1:
                    r_ = rng.randrange(1, n_)
                    idx = [(i + r_) % n_ for i in range(n_)]
                elif how == 2:
                    idx = list(range(n_))
                    rng.shuffle(idx)
                else:
                    idx = [rng.randrange(n_) for _ in range(n_)]
                t = pyrtl.WireVector(n_)
                d.block.add_net(pyrtl.LogicNet('s', tuple(idx), (a,), (t,)))
                o = Output(n_, 'operm')
                o <<= t
                d.outputs.append(o)
        steps = gen.rand_stimulus(rng, d, rng.choice([3, 5]))
        _, memmap, _ = gen.rand_init(rng, d, with_default=False)
        memmap_by_id = {m.id: mm for m, mm in memmap.items()}
        replay0 = {'kind': 'design', 'label': 'lower#%d' % k, 'steps': steps,
                   'memmap': {str(i): {str(a): v for a, v in mm.items()} for i, mm in memmap_by_id.items()}}
        desc = d.describe()
        seqs = []
        for p in gnames:
            seqs.append(('word', d.block, (p,)))
        for _ in range(3):
            ln = rng.choice([2, 3])
            seqs.append(('word', d.block, tuple(rng.choice(gnames) for _ in range(ln))))
        if rng.random() < 0.7:
            try:
                bs = passlib.run_in(d.block, lambda: pyrtl.synthesize(update_working_block=False, block=d.block))
                for g in sorted(GATE_PASSES):
                    seqs.append(('synth', bs, (g,)))
                    seqs.append(('synth', bs, (g, rng.choice(gnames))))
                seqs.append(('synth', bs, (rng.choice(gnames),)))        # a generic pass alone on the bit-level netlist
                seqs.append(('synth', bs, ('nand_synth', 'and_inverter_synth')))
                seqs.append(('synth', bs, ('and_inverter_synth', 'nand_synth')))
                seqs.append(('synth', bs, (rng.choice(gnames), rng.choice(sorted(GATE_PASSES)))))
            except Exception:  # noqa (C03)
                pass
        for label, blk, seq in seqs:
            if len(blk.logic) > 700 and 'two_way_fanout' in seq:
                continue   # analysis.fanout() is quadratic; large blocks would take minutes
            if len(blk.logic) > 2500:
                continue
            ok = check_seq(ctx, label, blk, seq, steps, memmap_by_id, replay0)
            total += 1
            agree += ok
            ctx.case((label, seq, desc['nets'], tuple(desc['ops'])), nontrivial=desc['nets'] >= 3)
            for p in seq:
                ctx.count('pass', p)
            ctx.count('sequence-length', len(seq))
        ctx.sample({'design': desc, 'sequences': [list(s[2]) for s in seqs[:6]]})
        if len(ctx.violations) >= 6:
            break
    failed_pass_keeps_working_block(ctx)
    tn, tb, tw = getattr(ctx, 'tie_n', 0), getattr(ctx, 'tie_bad', 0), getattr(ctx, 'tie_notwf', 0)
    tt = getattr(ctx, 'tie_nottopo', 0)
    ctx.oblige('model:the lowered schedule is a dependency order of the lowered block (isTopo, every tested block)', tt == 0,
               '%d/%d blocks' % (tt, tn))
    ctx.oblige('tie:nand_synth / and_inverter_synth / two_way_concat / one_bit_selects output = Lean LowerNet.lowerBlock (up to '
               'temporary names); tested blocks satisfy wfB', tb == 0 and tw == 0 and tn > 0,
               '%d/%d blocks differ, %d not wfB%s' % (tb, tn, tw, ('; first: ' + ctx.tie_first) if getattr(ctx, 'tie_first', None) else ''))
    ctx.extra['lower_tie'] = {'blocks': tn, 'differ': tb, 'not_wf': tw}
    dn, db, dk = getattr(ctx, 'dco_n', 0), getattr(ctx, 'dco_bad', 0), getattr(ctx, 'dco_notok', 0)
    ctx.oblige('tie:direct_connect_outputs output = Lean Dco.directConnectOutputs (net by net); tested blocks satisfy chainOkB',
               db == 0 and dk == 0 and dn > 0,
               '%d/%d blocks differ, %d not chainOkB%s' % (db, dn, dk, ('; first: ' + ctx.dco_first) if getattr(ctx, 'dco_first', None) else ''))
    ctx.extra['dco_tie'] = {'blocks': dn, 'differ': db, 'not_chain_ok': dk}
    fn_, fb, fk = getattr(ctx, 'fo_n', 0), getattr(ctx, 'fo_bad', 0), getattr(ctx, 'fo_notok', 0)
    ctx.oblige('tie:removing the w nets two_way_fanout inserted is a justified alias elimination (Lean Alias.schedsOkB) on the block after '
               'the pass whose result is the block before it (net by net)', fb == 0 and fk == 0 and fn_ > 0,
               '%d/%d blocks differ, %d certificates not accepted%s' % (fb, fn_, fk, ('; first: ' + ctx.fo_first) if getattr(ctx, 'fo_first', None) else ''))
    ctx.extra['fanout_tie'] = {'blocks': fn_, 'differ': fb, 'not_accepted': fk}
    ctx.oblige('oracle:Spec(pass-sequence(b))=Spec(b); well-formed; io kept; postconditions', not ctx.violations,
               '%d/%d pass sequences agree' % (agree, total))
    return conclude(ctx, rule='random designs (registers and memories feeding Outputs directly, fan-outs up to the pool '
                    'size, concats of 2..4, strided/reversed/repeated selects) x every single pass and random sequences of '
                    'length 2-3; gate-basis passes on synthesized blocks; distinct = (variant, sequence, net count, op set)')
