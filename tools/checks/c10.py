"""C10 — malformed netlists are rejected; API-built designs iterate in dependency order.

(a) API-built designs: sanity_check passes, the three simulators accept them, and Block iteration
under many tie-break seeds yields every net exactly once in a dependency order (checked by the Lean
`isTopo` checker, whose soundness is proved).
(b) Fault enumeration as correspondence: every listed fault class injected at sampled sites of a live
block; sanity_check and each simulator constructor must raise PyrtlError/PyrtlInternalError; the Lean
sanity model must classify the serialized faulty block the same way."""
import os
import pyrtl
from pyrtl import Input, Output, Const, Register, WireVector, LogicNet, MemBlock
from vlib import gen, simrun
from vlib.common import proof_gate, conclude
from vlib.serialize import Ser

SIMS = [pyrtl.Simulation, pyrtl.FastSimulation, pyrtl.CompiledSimulation]


def rejected_by(block, what):
    """'PyrtlError' / 'PyrtlInternalError' / 'accepted' / 'other:<type>'"""
    try:
        what(block)
    except (pyrtl.PyrtlError, pyrtl.PyrtlInternalError) as e:
        return simrun.err_class(e)
    except Exception as e:  # noqa
        return 'other:' + type(e).__name__
    return 'accepted'


def construct(simcls):
    def f(block):
        sim = simcls(block=block, tracer=pyrtl.SimulationTrace(block=block, wires_to_track=[
            w for w in block.wirevector_subset((Input, Output))] or None))
        steps = {i.name: 0 for i in block.wirevector_subset(Input)}
        sim.step(steps)
    return f


# ---- fault injectors: each returns a description or None if not applicable; they mutate `b` in place

def _nets(b, ops=None):
    ns = sorted(b.logic, key=lambda n: str(n))
    return [n for n in ns if ops is None or n.op in ops]


def _replace(b, old, new):
    b.logic.remove(old)
    b.logic.add(new)      # bypasses add_net's own checks on purpose: the fault must be caught later


def f_two_drivers(b, rng):
    cands = [n for n in _nets(b, '&|^~w+-') if not isinstance(n.dests[0], Output)]
    if len(cands) < 1:
        return None
    n = rng.choice(cands)
    others = [w for w in sorted(b.wirevector_set, key=lambda w: w.name) if len(w) == len(n.dests[0]) and w is not n.dests[0]
              and not isinstance(w, (Output,))]
    if not others:
        return None
    others = [w for w in others if LogicNet('w', None, (w,), (n.dests[0],)) not in b.logic]
    if not others:
        return None
    src = rng.choice(others)
    b.logic.add(LogicNet('w', None, (src,), (n.dests[0],)))
    return 'second driver for %s' % n.dests[0].name


def f_undriven(b, rng):
    cands = [n for n in _nets(b) if n.dests and n.op not in 'r@' and not isinstance(n.dests[0], Output)]
    src, dst = b.net_connections()
    cands = [n for n in cands if n.dests[0] in dst]
    if not cands:
        return None
    n = rng.choice(cands)
    b.logic.remove(n)
    return 'removed the only driver of %s (still read)' % n.dests[0].name


def f_undriven_reg(b, rng):
    """a Register that is read but whose `r` net is gone (`.next` never assigned)"""
    src, dst = b.net_connections()
    cands = [n for n in _nets(b, 'r') if n.dests[0] in dst and dst[n.dests[0]]]
    if not cands:
        return None
    n = rng.choice(cands)
    b.logic.remove(n)
    return 'removed the r net of register %s (still read)' % n.dests[0].name


def add_sync_mem(rng):
    """a synchronous (block-RAM style) memory whose read address is a concat of bits of registers / inputs"""
    blk = pyrtl.working_block()
    srcs = sorted(blk.wirevector_subset((Input, pyrtl.Register)), key=lambda w: w.name)
    if not srcs:
        return False
    m = pyrtl.MemBlock(4, 2, name='verif_sync', asynchronous=False)
    hi = WireVector(1, 'verif_sa_hi')
    lo = WireVector(1, 'verif_sa_lo')
    if rng.random() < 0.5:
        # reconvergent (but acyclic) index logic: both address bits come from one intermediate wire
        s_ = rng.choice(srcs)
        mid = WireVector(len(s_), 'verif_sa_mid')
        mid <<= s_
        hi <<= mid[len(s_) - 1]
        lo <<= mid[0]
    else:
        hi <<= rng.choice(srcs)[0]
        lo <<= rng.choice(srcs)[0]
    o = Output(4, 'verif_sync_out')
    o <<= m[pyrtl.concat(hi, lo)]
    if rng.random() < 0.5:
        o2 = Output(4, 'verif_sync_out2')
        o2 <<= m[pyrtl.concat(lo, hi)]
    return True


def add_same_name_mems(rng):
    """two memories that carry the same name (memories have their own name space; a helper called twice creates them)"""
    blk = pyrtl.working_block()
    srcs = sorted((w for w in blk.wirevector_subset((Input, pyrtl.Register)) if not w.name.startswith('verif_')), key=lambda w: w.name)
    if not srcs:
        return False
    for j in range(2):
        m = MemBlock(4, 2, 'verif_dup', asynchronous=True)
        s_ = rng.choice(srcs)
        a = s_[0:2] if len(s_) >= 2 else s_.zero_extended(2)
        d_ = rng.choice(srcs)
        d_ = d_[0:4] if len(d_) >= 4 else d_.zero_extended(4)
        m[a] <<= MemBlock.EnabledWrite(d_, rng.choice(srcs)[0])
        o = Output(4, 'verif_dup_out%d' % j)
        o <<= m[a]
    return True


def add_wide_mem(rng):
    """a memory whose address is as wide as a simulator's key type allows (33, 63 or 64 bits), with a write port"""
    blk = pyrtl.working_block()
    srcs = sorted((w for w in blk.wirevector_subset((Input, pyrtl.Register)) if not w.name.startswith('verif_')), key=lambda w: w.name)
    if not srcs:
        return False
    aw = rng.choice([33, 63, 64, 64])
    m = MemBlock(rng.choice([4, 70]), aw, 'verif_wide_mem', asynchronous=True)
    cat = pyrtl.concat_list([rng.choice(srcs) for _ in range(3)])
    addr = cat.zero_extended(aw) if len(cat) < aw else cat[:aw]
    data = rng.choice(srcs)
    data = data.zero_extended(m.bitwidth) if len(data) < m.bitwidth else data[:m.bitwidth]
    m[addr] <<= MemBlock.EnabledWrite(data, rng.choice(srcs)[0])
    o = Output(m.bitwidth, 'verif_wide_out')
    o <<= m[addr]
    return True


def f_undriven_sync_addr(b, rng):
    """the driver of a wire in the address cone of a synchronous memory is removed"""
    w = b.wirevector_by_name.get('verif_sa_lo')
    if w is None:
        return None
    drv = [n for n in b.logic if n.dests and n.dests[0] is w]
    if len(drv) != 1:
        return None
    b.logic.remove(drv[0])
    return 'removed the only driver of %s, which feeds the address of a synchronous memory' % w.name


def f_unconnected(b, rng):
    with pyrtl.set_working_block(b, no_sanity_check=True):
        w = WireVector(rng.randint(1, 8), 'verif_floating')
    return 'declared wire %s connected to nothing' % w.name


def f_foreign(b, rng):
    other = pyrtl.Block()
    with pyrtl.set_working_block(other, no_sanity_check=True):
        fw = WireVector(1, 'verif_foreign')
    cands = [n for n in _nets(b, '&|^') if len(n.args[0]) == 1]
    if not cands:
        cands = _nets(b, '~w')
        cands = [n for n in cands if len(n.args[0]) == 1]
    if not cands:
        return None
    n = rng.choice(cands)
    _replace(b, n, LogicNet(n.op, n.op_param, (fw,) + tuple(n.args[1:]), n.dests))
    return 'net %s reads a wire of another block' % str(n).strip()


def f_arity(b, rng):
    cands = _nets(b, '&|^+-*<>=~wx')
    if not cands:
        return None
    n = rng.choice(cands)
    if rng.random() < 0.5 and len(n.args) > 1:
        new = LogicNet(n.op, n.op_param, n.args[:-1], n.dests)
    else:
        new = LogicNet(n.op, n.op_param, n.args + (n.args[0],), n.dests)
    _replace(b, n, new)
    return 'wrong arity: %s' % str(new).strip()


def f_no_dest(b, rng):
    """a net that drives nothing (an empty destination tuple), next to the well-formed rest"""
    cands = _nets(b, 'r&|~w+c')
    if not cands:
        return None
    n = rng.choice(cands)
    new = LogicNet(n.op, n.op_param, n.args, ())
    b.logic.add(new)
    return 'a %s net without a destination: %s' % (n.op, str(new).strip()[:60])


def f_width(b, rng):
    kind = rng.choice(['args', 'dest', 'muxsel', 'cmpdest', 'memdata', 'memaddr'])
    with pyrtl.set_working_block(b, no_sanity_check=True):
        if kind in ('memdata', 'memaddr'):
            # a memory port whose data / address wire is narrower or wider than the memory's
            cands = [n for n in _nets(b, '@m') if (kind == 'memaddr' or n.op == '@')]
            if not cands:
                return None
            n = rng.choice(cands)
            pos = 0 if kind == 'memaddr' else 1
            old_w = n.args[pos]
            delta = rng.choice([-1, 1]) if len(old_w) > 1 else 1
            nw = WireVector(len(old_w) + delta, 'verif_memw')
            if delta > 0:
                b.logic.add(LogicNet('c', None, (old_w[0] if False else old_w, ) + (WireVector(1, 'verif_pad'),), (nw,)))
                b.logic.add(LogicNet('s', (0,), (old_w,), (b.wirevector_by_name['verif_pad'],)))
            else:
                b.logic.add(LogicNet('s', tuple(range(len(old_w) - 1)), (old_w,), (nw,)))
            args = list(n.args)
            args[pos] = nw
            new = LogicNet(n.op, n.op_param, tuple(args), n.dests)
        elif kind == 'args':
            cands = _nets(b, '&|^+-*<>=n')
            if not cands:
                return None
            n = rng.choice(cands)
            wide = WireVector(len(n.args[1]) + 1, 'verif_wide')
            b.logic.add(LogicNet('c', None, (n.args[1], n.args[1][0] if False else n.args[1]), (WireVector(2 * len(n.args[1]), 'verif_cc'),)))
            b.logic.add(LogicNet('s', tuple(range(len(n.args[1]))) + (0,), (n.args[1],), (wide,)))
            new = LogicNet(n.op, n.op_param, (n.args[0], wide), n.dests)
        elif kind == 'dest':
            cands = [n for n in _nets(b, '&|^~w+-*cs') if not isinstance(n.dests[0], (Output, Register))]
            if not cands:
                return None
            n = rng.choice(cands)
            full = {'+': len(n.args[0]) + 1, '-': len(n.args[0]) + 1, '*': 2 * len(n.args[0]),
                    'c': sum(len(a) for a in n.args), 's': len(n.op_param or ())}.get(n.op, len(n.args[0]))
            big = WireVector(full + 1, 'verif_bigdest')
            o = Output(full + 1, 'verif_bigout')
            b.logic.add(LogicNet('w', None, (big,), (o,)))
            new = LogicNet(n.op, n.op_param, n.args, (big,))
            # the old destination keeps a driver so that only the width rule is violated
            b.logic.add(LogicNet('s', tuple(range(len(n.dests[0]))), (big,), (n.dests[0],)))
        elif kind == 'muxsel':
            cands = _nets(b, 'x')
            if not cands:
                return None
            n = rng.choice(cands)
            sel2 = WireVector(2, 'verif_sel2')
            b.logic.add(LogicNet('c', None, (n.args[0], n.args[0]), (sel2,)))
            new = LogicNet('x', None, (sel2, n.args[1], n.args[2]), n.dests)
        else:
            cands = [n for n in _nets(b, '<>=') if not isinstance(n.dests[0], Output)]
            if not cands:
                return None
            n = rng.choice(cands)
            d2 = WireVector(2, 'verif_cmp2')
            b.logic.add(LogicNet('s', (0,), (d2,), (n.dests[0],)))
            new = LogicNet(n.op, None, n.args, (d2,))
        _replace(b, n, new)
    return 'bitwidth rule broken (%s): %s' % (kind, str(new).strip())


def f_param(b, rng):
    kind = rng.choice(['select-range', 'param-on-plain', 'select-none'])
    if kind == 'select-range':
        cands = _nets(b, 's')
        if not cands:
            return None
        n = rng.choice(cands)
        new = LogicNet('s', tuple(n.op_param[:-1]) + (len(n.args[0]) + rng.randint(0, 3),), n.args, n.dests)
    elif kind == 'select-none':
        cands = _nets(b, 's')
        if not cands:
            return None
        n = rng.choice(cands)
        new = LogicNet('s', None, n.args, n.dests)
    else:
        cands = _nets(b, '&|^~w+-x<>=c*')
        if not cands:
            return None
        n = rng.choice(cands)
        # any parameter at all is wrong on these ops, including the falsy ones
        new = LogicNet(n.op, rng.choice([(0,), (), 0, '', False, (1, 2)]), n.args, n.dests)
    _replace(b, n, new)
    return 'bad op_param (%s): %s' % (kind, str(new).strip())


def f_input_dest(b, rng):
    ins = sorted(b.wirevector_subset((Input, Const)), key=lambda w: w.name)
    if not ins:
        return None
    i = rng.choice(ins)
    srcs = [w for w in sorted(b.wirevector_set, key=lambda w: w.name) if len(w) == len(i) and w is not i
            and not isinstance(w, Output)]
    if not srcs:
        return None
    b.logic.add(LogicNet('w', None, (rng.choice(srcs),), (i,)))
    return '%s %s used as a destination' % (type(i).__name__, i.name)


def f_output_arg(b, rng):
    outs = sorted(b.wirevector_subset(Output), key=lambda w: w.name)
    if not outs:
        return None
    o = rng.choice(outs)
    with pyrtl.set_working_block(b, no_sanity_check=True):
        o2 = Output(len(o), 'verif_out_reader')
    b.logic.add(LogicNet('w', None, (o,), (o2,)))
    return 'Output %s used as an argument' % o.name


def f_dup_name(b, rng):
    ws = [w for w in sorted(b.wirevector_set, key=lambda w: w.name) if not isinstance(w, (Input, Output, Const))]
    if len(ws) < 2:
        return None
    a, c = rng.sample(ws, 2)
    c.__dict__['_name'] = a.name if '_name' in c.__dict__ else None
    try:
        object.__setattr__(c, '_name', a.name)
    except Exception:  # noqa
        return None
    return 'two wires named %s' % a.name


def f_width_inplace(b, rng):
    """no net or wire is added or removed: an operand wire's bitwidth attribute is changed in place"""
    cands = [n for n in _nets(b, '&|^n') if not isinstance(n.args[1], (Input, Const)) and n.args[0] is not n.args[1]]
    if not cands:
        return None
    n = rng.choice(cands)
    w = n.args[1]
    w.bitwidth = w.bitwidth + rng.choice([1, 2])
    return 'operands of unequal width after an in-place change of %s.bitwidth: %s' % (w.name, str(n).strip())


def f_comb_cycle(b, rng):
    cands = [n for n in _nets(b, '&|^') if not isinstance(n.dests[0], Output) and len(n.dests[0]) == len(n.args[0])]
    if not cands:
        cands = [n for n in _nets(b, '~w') if not isinstance(n.dests[0], Output) and len(n.dests[0]) == len(n.args[0])]
    if not cands:
        return None
    n = rng.choice(cands)
    # feed the net's own destination (possibly through an inverter) back into its first argument
    with pyrtl.set_working_block(b, no_sanity_check=True):
        if rng.random() < 0.5:
            new = LogicNet(n.op, n.op_param, (n.dests[0],) + tuple(n.args[1:]), n.dests)
        else:
            mid = WireVector(len(n.dests[0]), 'verif_loop')
            b.logic.add(LogicNet('~', None, (n.dests[0],), (mid,)))
            new = LogicNet(n.op, n.op_param, (mid,) + tuple(n.args[1:]), n.dests)
    _replace(b, n, new)
    return 'combinational cycle through %s' % n.dests[0].name


FAULTS = [('two-drivers', f_two_drivers), ('undriven', f_undriven), ('undriven-register', f_undriven_reg), ('undriven-sync-address', f_undriven_sync_addr),
          ('unconnected', f_unconnected),
          ('foreign-wire', f_foreign), ('arity', f_arity), ('no-destination', f_no_dest), ('bitwidth', f_width), ('op-param', f_param),
          ('bitwidth-inplace', f_width_inplace), ('input-const-dest', f_input_dest), ('output-arg', f_output_arg), ('dup-name', f_dup_name),
          ('comb-cycle', f_comb_cycle)]


def model_verdict(ctx, block):
    """the Lean sanity model on the serialized (possibly malformed) block"""
    try:
        from vlib.serialize import ser_malformed
        data = ser_malformed(block)
    except Exception as e:  # noqa
        return {'ok': False, 'err': 'unserializable:' + type(e).__name__}
    return ctx.driver.ask({'cmd': 'sanity', 'block': data})


def main(ctx):
    proofs_ok = proof_gate(ctx, gen_modules=['SanityTable'])
    n = ctx.n(120, 3000)
    if not proofs_ok:
        n *= 2
    nseeds = ctx.n(6, 32)
    good = bad_total = 0
    tie_cases = tie_bad = 0
    for k in ctx.loop(n):
        rng = ctx.rng
        d = gen.rand_design(rng, profile=('small', 'med', 'limb')[k % 3], raw=False, nops=rng.randint(3, 14),
                            name_style=('plain', 'verilog-nospace')[(k // 2) % 2])
        if k % 2 == 0 and add_sync_mem(rng):
            ctx.count('sync-memory', 'added')
        if k % 4 == 0 and rng.random() < 0.5 and add_wide_mem(rng):
            ctx.count('wide-address-memory', 'added')
        if k % 4 == 0 and rng.random() < 0.5 and add_same_name_mems(rng):
            ctx.count('same-name-memories', 'added')
        desc = d.describe()
        ser = Ser(d.block)
        replay0 = {'kind': 'design', 'block': ser.data}
        # (a) accepted everywhere, iteration is a dependency order whichever way ties are broken
        v = rejected_by(d.block, lambda b: b.sanity_check())
        if v != 'accepted':
            ctx.violation('api-built-rejected', 'sanity_check rejects an API-built design: %s' % v, replay0)
            if len(ctx.violations) >= 6:
                break
            continue      # nothing below can be decided on a block the library refuses to copy or iterate
        sims = SIMS if k % 4 == 0 else SIMS[:2]
        for simcls in sims:
            v = rejected_by(d.block, construct(simcls))
            if v != 'accepted':
                ctx.violation('api-built-rejected:' + simcls.__name__, '%s rejects an API-built design: %s' % (simcls.__name__, v), replay0)
        for s in range(nseeds):
            os.environ['PYRTL_VERIF_ITER_SEED'] = str(rng.randrange(1 << 30)) if s else ''
            if not s:
                os.environ.pop('PYRTL_VERIF_ITER_SEED', None)
            try:
                order = list(d.block)
            except Exception as e:  # noqa
                ctx.violation('iteration-raises', 'iterating an API-built block raised %s' % type(e).__name__, replay0)
                break
            finally:
                os.environ.pop('PYRTL_VERIF_ITER_SEED', None)
            idx = [ser.net_index(nn) for nn in order]
            if sorted(idx) != list(range(len(ser.nets))):
                ctx.violation('iteration-not-exactly-once', 'Block iteration yielded %d nets of %d (duplicates or omissions)' % (
                    len(idx), len(ser.nets)), dict(replay0, order=idx))
                break
            resp = ctx.driver.ask({'cmd': 'topo', 'block': ser.data, 'order': idx})
            ctx.count('iteration-orders-checked', 'n')
            if not resp.get('ok') or not resp.get('topo'):
                ctx.violation('iteration-order', 'Block iteration is not a dependency order: %s' % resp, dict(replay0, order=idx))
                break
        mv = model_verdict(ctx, d.block)
        tie_cases += 1
        if not mv.get('ok') or mv.get('verdict') != 'ok':
            tie_bad += 1
            ctx.tie_only = getattr(ctx, 'tie_only', []) + [dict(replay0, model=mv)]
        good += 1
        # (a') wires renamed through the API after construction, while an unrelated block is the working block:
        # the design is as well formed as before
        if k % 3 == 0:
            b3 = pyrtl.copy_block(d.block, update_working_block=False)
            other = pyrtl.Block()
            with pyrtl.set_working_block(other, no_sanity_check=True):
                ws = sorted((w for w in b3.wirevector_set if not isinstance(w, Const)), key=lambda w: w.name)
                renamed = []
                for w in rng.sample(ws, min(len(ws), 2)):
                    renamed.append(w.name)
                    w.name = 'verif_renamed_%d' % len(renamed)
            ctx.count('renamed-after-construction', len(renamed))
            v = rejected_by(b3, lambda b: b.sanity_check())
            if v == 'accepted':
                v = rejected_by(b3, construct(SIMS[0]))
            if v != 'accepted':
                ctx.violation('api-renamed-rejected', 'an API-built design whose wires %r were renamed (w.name = ...) while another block '
                              'was the working block is rejected: %s' % (renamed, v), replay0)
        # (a'') nets the API never emits but the Block documentation allows (a concat of a single wire): the design is
        # as well formed as before
        if k % 3 == 1:
            b4 = pyrtl.copy_block(d.block, update_working_block=False)
            srcs4 = sorted((w for w in b4.wirevector_set if not isinstance(w, Output)), key=lambda w: w.name)
            if srcs4:
                with pyrtl.set_working_block(b4, no_sanity_check=True):
                    w4 = rng.choice(srcs4)
                    o4 = Output(len(w4), 'verif_single_concat')
                b4.logic.add(LogicNet('c', None, (w4,), (o4,)))
                ctx.count('single-argument-concat', 'added')
                v = rejected_by(b4, lambda b: b.sanity_check())
                if v == 'accepted':
                    v = rejected_by(b4, construct(rng.choice(SIMS[:2])))
                if v != 'accepted':
                    ctx.violation('wellformed-rejected:single-argument-concat', 'a design with a concat net of one argument (%s -> %s, equal '
                                  'widths; "c" takes any number of wires) is rejected: %s' % (w4.name, o4.name, v), replay0)
        # (b) one fault of each class
        for fname, inject in FAULTS:
            b2 = pyrtl.copy_block(d.block, update_working_block=False)
            if rng.random() < 0.5:
                # the block was checked (and simulated) while it was still well formed; the edit comes afterwards
                b2.sanity_check()
                if rng.random() < 0.5:
                    try:
                        construct(rng.choice(sims))(b2)
                    except Exception:  # noqa  (a rejected well-formed design is reported above as api-built-rejected)
                        pass
                ctx.count('fault-after-clean-check', fname)
            what = inject(b2, rng)
            if what is None:
                ctx.count('fault-not-applicable', fname)
                continue
            bad_total += 1
            ctx.count('fault-injected', fname)
            replay = {'kind': 'fault', 'fault': fname, 'what': what, 'source_block': ser.data}
            verdicts = {'sanity_check': rejected_by(b2, lambda b: b.sanity_check())}
            for simcls in sims:
                verdicts[simcls.__name__] = rejected_by(b2, construct(simcls))
            if verdicts['sanity_check'].startswith('other:'):
                ctx.violation('fault-wrong-exception:%s:sanity_check' % fname,
                              'sanity_check raises %s (not PyrtlError/PyrtlInternalError) for a block with %s' % (verdicts['sanity_check'][6:], what), replay)
            if verdicts['sanity_check'] == 'accepted' and fname != 'comb-cycle':
                ctx.violation('fault-accepted:%s:sanity_check' % fname, 'sanity_check accepts a block with %s' % what, replay)
            for simcls in sims:
                vv = verdicts[simcls.__name__]
                if vv == 'accepted':
                    ctx.violation('fault-simulated:%s:%s' % (fname, simcls.__name__),
                                  '%s silently simulates a block with %s' % (simcls.__name__, what), replay)
                elif vv.startswith('other:'):
                    ctx.violation('fault-wrong-exception:%s:%s' % (fname, simcls.__name__),
                                  '%s raises %s (not PyrtlError/PyrtlInternalError) for a block with %s' % (simcls.__name__, vv[6:], what), replay)
            mv = model_verdict(ctx, b2)
            tie_cases += 1
            real_rej = verdicts['sanity_check'] != 'accepted' or any(verdicts[s_.__name__] != 'accepted' for s_ in sims)
            model_rej = (not mv.get('ok')) or mv.get('verdict') != 'ok'
            if mv.get('err', '').startswith('unserializable'):
                ctx.count('model', 'unserializable:' + fname)
            elif model_rej != real_rej:
                tie_bad += 1
                ctx.tie_only = getattr(ctx, 'tie_only', []) + [dict(replay, model=mv, real=verdicts)]
            ctx.case((fname, desc['nets'], tuple(desc['ops'])), nontrivial=True)
        ctx.case(('good', desc['nets'], tuple(desc['ops'])), nontrivial=desc['nets'] >= 3)
        ctx.sample({'design': desc, 'faults': [f for f, _ in FAULTS]})
        if len(ctx.violations) >= 6:
            break
    ctx.oblige('tie:sanity model classifies like the code', tie_bad == 0, '%d/%d blocks classified differently' % (tie_bad, tie_cases))
    if tie_bad and not ctx.violations:
        ctx.extra['tie_only_examples'] = getattr(ctx, 'tie_only', [])[:3]
    ctx.oblige('property:faults rejected, API-built designs accepted and iterated in dependency order', not ctx.violations,
               '%d good designs, %d injected faults' % (good, bad_total))
    return conclude(ctx, level='proof', rule='API-built designs x 13 fault classes injected at a random applicable site each x '
                    '{sanity_check, Simulation, FastSimulation, CompiledSimulation}; iteration under native order and '
                    'pseudo-random tie-break seeds; distinct = (fault class or "good", net count, op set)')
