"""C11 — copy_block() and non-updating passes never disturb the source block.

Observed per run (CPython object identity cannot be exhibited by a model): structural fingerprint of
the source before/after, working_block identity, disjointness of wire objects, and behavioural
identity of the copy (Spec.run in Lean on both, reset values and ROM contents included), then
edit/simulate sequences on either block.  Proofs: Proofs/Props/C11.lean (store model: fresh
allocation gives frame + isomorphism => equal Spec.run)."""
import pyrtl
from pyrtl import Input, Output, Const, Register, WireVector
from pyrtl.memory import RomBlock
from vlib import gen, simrun
from vlib.common import proof_gate, conclude
from vlib.serialize import Ser, tabulate_rom
from checks.c03 import spec_run


def obj_state(o):
    """every instance attribute of a memory object: scalars by value, containers by the identities of their
    elements, other objects by identity (port lists, counters, the ROM a RomBlock currently builds its ports on ...)"""
    out = []
    for k, v in sorted(vars(o).items()):
        if k in ('data',):
            continue                   # ROM contents are tabulated separately
        if isinstance(v, (int, str, bool, type(None))):
            out.append((k, repr(v)))
        elif isinstance(v, (list, tuple, set, frozenset)):
            out.append((k, tuple(sorted(id(e) for e in v))))
        else:
            out.append((k, id(v)))
    return tuple(out)


def fingerprint(block):
    """every attribute of every wire, net and memory that behaviour or tools can depend on"""
    ws = []
    for w in block.wirevector_set:
        ws.append((w.name, type(w).__name__, w.bitwidth, getattr(w, 'val', None),
                   getattr(w, 'reset_value', None), id(w), id(w._block)))
    ns = []
    mems = {}
    for n in block.logic:
        p = n.op_param
        if n.op in 'm@':
            m = p[1]
            mems[id(m)] = m
            p = (p[0], id(m))
        ns.append((n.op, repr(p), tuple(id(a) for a in n.args), tuple(id(x) for x in n.dests)))
    ms = []
    for m in mems.values():
        rom = tuple(map(tuple, tabulate_rom(m))) if isinstance(m, RomBlock) and (1 << m.addrwidth) <= 4096 else None
        ms.append((id(m), m.name, m.id, m.bitwidth, m.addrwidth, m.asynchronous, type(m).__name__, rom,
                   getattr(m, 'pad_with_zeros', None), m.max_read_ports, m.max_write_ports, obj_state(m)))
    byname = tuple(sorted((k, id(v)) for k, v in block.wirevector_by_name.items()))
    membyname = tuple(sorted((k, id(v)) for k, v in block.memblock_by_name.items()))
    asserts = tuple(sorted((id(k), repr(v)) for k, v in block.rtl_assert_dict.items()))
    blockattrs = tuple(sorted((k, repr(sorted(map(repr, v)))) for k, v in vars(block).items()
                              if isinstance(v, (set, frozenset)) and k in ('legal_ops',)))
    return (tuple(sorted(ws)), tuple(sorted(ns)), tuple(sorted(ms)), byname, membyname, asserts, blockattrs)


def fp_diff(a, b):
    names = ['wires', 'nets', 'memories', 'wirevector_by_name', 'memblock_by_name', 'rtl_assert_dict', 'block attributes (legal_ops)']
    for nm, x, y in zip(names, a, b):
        if x != y:
            only_a = [e for e in x if e not in y][:2]
            only_b = [e for e in y if e not in x][:2]
            return '%s changed: before-only %r after-only %r' % (nm, only_a, only_b)
    return None


def out_trace(ctx, block, d, steps, regmap, memmap, mem_translate=None):
    tr, resp, ser = spec_run(ctx, block, steps, regmap, memmap, 0, mem_translate=mem_translate)
    if tr is None:
        return None, resp
    return {o.name: tr.get(o.name) for o in d.outputs}, resp


def check_design(ctx, d, steps, memmap, label):
    ok = True
    src = d.block
    ser0 = Ser(src)
    replay = {'kind': 'design', 'label': label, 'block': ser0.data, 'steps': steps,
              'memmap': {m.name: {str(a): v for a, v in mm.items()} for m, mm in memmap.items()}}
    base, bresp = out_trace(ctx, src, d, steps, {}, memmap)
    if base is None:
        raise RuntimeError('spec rejected generated design')
    if bresp.get('romfault'):
        return True
    ncyc = None if bresp.get('wconflict') is None else bresp['wconflict'] + 1
    fp0 = fingerprint(src)
    # half of the time the working block is an unrelated decoy: `block=src` must still be what is copied
    decoy = None
    if ctx.rng.random() < 0.5:
        decoy = pyrtl.Block()
        with pyrtl.set_working_block(decoy, no_sanity_check=True):
            dq = pyrtl.Output(1, 'verif_decoy_q')
            dq <<= ~pyrtl.Input(1, 'verif_decoy_p')
    pyrtl.set_working_block(decoy if decoy is not None else src, no_sanity_check=True)
    ctx.count('working-block', 'decoy' if decoy is not None else 'source')
    wb0 = pyrtl.working_block()
    ops = [('copy_block', lambda: pyrtl.copy_block(src, update_working_block=False)),
           ('synthesize', lambda: pyrtl.synthesize(update_working_block=False, block=src)),
           ('optimize', lambda: pyrtl.optimize(update_working_block=False, block=src))]
    results = {}
    for name, fn in ops:
        try:
            res = fn()
        except Exception as e:  # noqa
            ctx.violation('%s-raises:%s' % (name, simrun.err_class(e)), '%s(update_working_block=False) raised %s: %s' % (
                name, type(e).__name__, str(e)[:200]), dict(replay, op=name))
            ok = False
            continue
        results[name] = res
        if pyrtl.working_block() is not wb0:
            ctx.violation(name + ':working-block-changed', '%s(update_working_block=False) changed the working block' % name,
                          dict(replay, op=name))
            ok = False
            pyrtl.set_working_block(wb0, no_sanity_check=True)
        dif = fp_diff(fp0, fingerprint(src))
        if dif:
            ctx.violation(name + ':source-modified', '%s(update_working_block=False) modified its source block: %s' % (name, dif),
                          dict(replay, op=name))
            ok = False
            fp0 = fingerprint(src)
        io_src = (sorted(w.name for w in src.wirevector_subset(pyrtl.Input)), sorted(w.name for w in src.wirevector_subset(pyrtl.Output)))
        io_res = (sorted(w.name for w in res.wirevector_subset(pyrtl.Input)), sorted(w.name for w in res.wirevector_subset(pyrtl.Output)))
        if io_res != io_src:
            # (an Input no net reads is still part of the interface: the testbench of the source drives it by name)
            ctx.violation(name + ':wrong-block', '%s(update_working_block=False, block=src) returned a block with inputs/outputs %r, the source has %r' % (
                name, io_res, io_src), dict(replay, op=name))
            ok = False
            results.pop(name, None)
            continue
        if res is src:
            ctx.violation(name + ':returned-source', '%s returned the source block itself' % name, dict(replay, op=name))
            ok = False
            continue
        # the bookkeeping of the two blocks is separate too: a container one block edits in place (the set of ops it
        # accepts, its name indexes) is not the other block's container
        both = [k_ for k_, v_ in vars(res).items() if isinstance(v_, (set, dict, list)) and vars(src).get(k_) is v_]
        if both:
            k_ = both[0]
            before_ = repr(sorted(map(repr, vars(src)[k_])))
            if isinstance(vars(res)[k_], set):
                vars(res)[k_].add('verif_edit')
                after_ = repr(sorted(map(repr, vars(src)[k_])))
                vars(res)[k_].discard('verif_edit')
            else:
                after_ = before_ + ' (same object)'
            ctx.violation(name + ':shares-container', 'the block returned by %s(update_working_block=False) and its source share the %s object '
                          'Block.%s: adding an element to it in the result changes the source (%s -> %s)' % (
                              name, type(vars(res)[k_]).__name__, k_, before_[:80], after_[:100]), dict(replay, op=name, attribute=k_))
            ok = False
        shared = set(map(id, res.wirevector_set)) & set(map(id, src.wirevector_set))
        if shared:
            ctx.violation(name + ':shares-wires', '%s result shares %d wire objects with the source' % (name, len(shared)),
                          dict(replay, op=name))
            ok = False
        srcmems = set(id(n.op_param[1]) for n in src.logic_subset('m@'))
        resmems = set(id(n.op_param[1]) for n in res.logic_subset('m@'))
        if srcmems & resmems:
            ctx.violation(name + ':shares-memories', '%s result shares memory objects with the source' % name, dict(replay, op=name))
            ok = False
        if name == 'synthesize' and hasattr(res, 'reg_map'):
            for r in sorted(src.wirevector_subset(pyrtl.Register), key=lambda w: w.name):
                bits = list(res.reg_map.get(r, []))
                want_bits = [None if r.reset_value is None else (r.reset_value >> k_) & 1 for k_ in range(len(bits))]
                got_bits = [getattr(b_, 'reset_value', 'not-a-register') for b_ in bits]
                if got_bits != want_bits or len(bits) != len(r):
                    ctx.violation('synthesize:reset-value', 'register %s (reset_value %r, %d bits) becomes 1-bit registers with reset values %r' % (
                        r.name, r.reset_value, len(r), got_bits), dict(replay, op=name))
                    ok = False
                    break
        # the name registry of the result points at the memories its nets use
        used = {n.op_param[1].name: n.op_param[1] for n in res.logic_subset('m@')}
        for nm_, m_ in used.items():
            reg_m = res.memblock_by_name.get(nm_)
            # (a name carried by several memories of the source -- a RomBlock and the copy it makes of itself when its read
            # ports run out -- has one registry entry; which of them the result still uses is up to dead-logic removal)
            several_in_src = len({id(x.op_param[1]) for x in src.logic_subset('m@') if x.op_param[1].name == nm_}) > 1
            if reg_m is not None and reg_m is not m_ and not several_in_src and sum(
                    1 for x in res.logic_subset('m@') if x.op_param[1].name == nm_ and x.op_param[1] is not m_) == 0:
                ctx.violation(name + ':memblock_by_name', '%s: get_memblock_by_name(%r) of the result returns a memory object (id %d) that none of '
                              'its nets uses (they use id %d)' % (name, nm_, reg_m.id, m_.id), dict(replay, op=name))
                ok = False
                break
        if name in ('synthesize', 'copy_block') and hasattr(res, 'mem_map'):
            srcm = set(id(n.op_param[1]) for n in src.logic_subset('m@'))
            resm = set(id(n.op_param[1]) for n in res.logic_subset('m@'))
            keys, vals = set(id(k) for k in res.mem_map), set(id(v) for v in res.mem_map.values())
            if not srcm <= keys or not resm <= vals:
                ctx.violation(name + ':mem_map', '%s(update_working_block=False): the result\'s mem_map does not map every memory of the source '
                              'block to the memory of the result (%d of %d source memories are keys, %d of %d result memories are values)' % (
                                  name, len(srcm & keys), len(srcm), len(resm & vals), len(resm)), dict(replay, op=name))
                ok = False
        # every memory of the result is a faithful copy of the source memory with the same id
        src_by_id = {n.op_param[1].id: n.op_param[1] for n in src.logic_subset('m@')}
        for m2 in {id(n.op_param[1]): n.op_param[1] for n in res.logic_subset('m@')}.values():
            m = src_by_id.get(m2.id)
            if m is None:
                continue          # reported through the behavioural comparison
            a1 = (m.name, m.bitwidth, m.addrwidth, m.asynchronous, m.max_read_ports, m.max_write_ports, type(m).__name__)
            a2 = (m2.name, m2.bitwidth, m2.addrwidth, m2.asynchronous, m2.max_read_ports, m2.max_write_ports, type(m2).__name__)
            if a1 != a2:
                ctx.violation(name + ':mem-attr', '%s: memory %s (name, bitwidth, addrwidth, asynchronous, max_read_ports, max_write_ports, class) '
                              'is %r in the source and %r in the result' % (name, m.name, a1, a2), dict(replay, op=name))
                ok = False
                break
        after, _ = out_trace(ctx, src, d, steps, {}, memmap)
        if after != base:
            ctx.violation(name + ':source-behaviour-changed', 'simulated behaviour of the source differs after %s' % name,
                          dict(replay, op=name))
            ok = False
    # the copy is behaviourally identical (reset values, ROM contents, async flags, memory ids)
    cp = results.get('copy_block')
    if cp is not None:
        mm = getattr(cp, 'mem_map', {})
        try:
            memmap2 = {mm[m]: v for m, v in memmap.items()}
        except KeyError:
            memmap2 = None
            ctx.violation('copy_block:mem_map', 'copy_block result has no mem_map entry for a source memory', replay)
            ok = False
        if memmap2 is not None:
            got, resp = out_trace(ctx, cp, d, steps, {}, memmap2)
            if got is None:
                ctx.violation('copy_block:malformed', 'copy rejected by the model: %s' % resp.get('err'), replay)
                ok = False
            else:
                for o in d.outputs:
                    a, b = base[o.name], got.get(o.name)
                    m = len(a) if ncyc is None else min(ncyc, len(a))
                    if b is None or a[:m] != b[:m]:
                        ok = False
                        ctx.violation('copy_block:behaviour', 'copy_block result differs from its source on Output %s: %r vs %r' % (
                            o.name, a[:m], None if b is None else b[:m]), replay)
                        break
        # attribute-level isomorphism
        for w in src.wirevector_set:
            w2 = cp.wirevector_by_name.get(w.name)
            if w2 is None or type(w2) is not type(w) or w2.bitwidth != w.bitwidth \
                    or getattr(w2, 'val', None) != getattr(w, 'val', None) \
                    or getattr(w2, 'reset_value', None) != getattr(w, 'reset_value', None):
                ok = False
                ctx.violation('copy_block:wire-attr:' + type(w).__name__,
                              'copy of wire %s differs in class/bitwidth/val/reset_value (reset %r -> %r)' % (
                                  w.name, getattr(w, 'reset_value', None), getattr(w2, 'reset_value', None)), replay)
                break
        for m, m2 in mm.items():
            if (m2.id, m2.bitwidth, m2.addrwidth, m2.asynchronous, type(m2)) != (m.id, m.bitwidth, m.addrwidth, m.asynchronous, type(m)) \
                    or (isinstance(m, RomBlock) and tabulate_rom(m) != tabulate_rom(m2)):
                ok = False
                ctx.violation('copy_block:mem-attr', 'copy of memory %s differs in id/widths/async/ROM data' % m.name, replay)
                break
        # later edits / simulation of either block do not affect the other
        fp_src = fingerprint(src)
        fp_cp = fingerprint(cp)
        with pyrtl.set_working_block(cp, no_sanity_check=True):
            extra = Output(1, 'verif_extra_out')
            anyw = sorted(cp.wirevector_subset(Input), key=lambda w: w.name)[0]
            extra <<= anyw[0]
        if fp_diff(fp_src, fingerprint(src)):
            ok = False
            ctx.violation('edit-copy-affects-source', 'adding a net to the copy changed the source', replay)
        # renaming a wire of the copy while the source is the working block
        with pyrtl.set_working_block(src, no_sanity_check=True):
            victim = sorted((w for w in cp.wirevector_set if not isinstance(w, Const) and not w.name.startswith('verif_')),
                            key=lambda w: w.name)[-1]
            victim_old = victim.name
            victim.name = 'verif_renamed_in_copy'
        if fp_diff(fp_src, fingerprint(src)):
            ok = False
            ctx.violation('rename-in-copy-affects-source', 'renaming wire %s of the copy (w.name = ...) changed the source block: %s' % (
                victim_old, fp_diff(fp_src, fingerprint(src))), replay)
        try:
            cp.sanity_check()
        except Exception as e:  # noqa
            ok = False
            ctx.violation('rename-in-copy-malformed', 'after renaming wire %s of the copy the copy fails sanity_check: %s' % (victim_old, str(e)[:120]), replay)
        simrun.run_real(pyrtl.Simulation, cp, steps, {}, {}, 0, track=None)
        simrun.run_real(pyrtl.FastSimulation, src, steps, {}, {}, 0, track=None)
        if fp_diff(fp_src, fingerprint(src)):
            ok = False
            ctx.violation('simulate-affects-source', 'simulating changed the source block', replay)
        with pyrtl.set_working_block(src, no_sanity_check=True):
            extra2 = Output(1, 'verif_extra_out2')
            extra2 <<= sorted(src.wirevector_subset(Input), key=lambda w: w.name)[0][0]
        cp_now = fingerprint(cp)
        with pyrtl.set_working_block(cp, no_sanity_check=True):
            pass
        # the copy (already edited once) must be untouched by the edit of the source
        if 'verif_extra_out2' in cp.wirevector_by_name:
            ok = False
            ctx.violation('edit-source-affects-copy', 'adding a net to the source changed the copy', replay)
        del fp_cp, cp_now
    return ok


def port_limits(ctx):
    """memories whose read/write port limits differ and are used to the limit"""
    rng = ctx.rng
    for k in range(ctx.n(6, 40)):
        pyrtl.reset_working_block()
        nr, nw = rng.randint(1, 3), rng.randint(1, 4)
        lim_r, lim_w = rng.choice([nr, nr + 1, None]), rng.choice([nw, nw + 2, None])
        m = pyrtl.MemBlock(8, 2, name='m', max_read_ports=lim_r, max_write_ports=lim_w, asynchronous=rng.random() < 0.5)
        for i in range(nw):
            m[Input(2, 'wa%d' % i)] <<= pyrtl.MemBlock.EnabledWrite(Input(8, 'wd%d' % i), Input(1, 'we%d' % i))
        for i in range(nr):
            o = Output(8, 'rd%d' % i)
            o <<= m[Input(2, 'ra%d' % i)]
        src = pyrtl.working_block()
        replay = {'kind': 'port-limits', 'read_ports': nr, 'write_ports': nw, 'max_read_ports': lim_r, 'max_write_ports': lim_w}
        for name, fn in (('copy_block', lambda: pyrtl.copy_block(src, update_working_block=False)),
                         ('synthesize', lambda: pyrtl.synthesize(update_working_block=False, block=src)),
                         ('optimize', lambda: pyrtl.optimize(update_working_block=False, block=src))):
            ctx.evaluations += 1
            try:
                res = fn()
            except Exception as e:  # noqa
                ctx.violation('%s-raises:%s' % (name, simrun.err_class(e)), '%s(update_working_block=False) on a memory with %d read / %d write ports '
                              '(limits %r / %r) raised %s: %s' % (name, nr, nw, lim_r, lim_w, type(e).__name__, str(e)[:160]), dict(replay, op=name))
                continue
            for m2 in {id(n.op_param[1]): n.op_param[1] for n in res.logic_subset('m@')}.values():
                if (m2.max_read_ports, m2.max_write_ports, m2.id, m2.name) != (lim_r, lim_w, m.id, m.name):
                    ctx.violation(name + ':mem-attr', '%s: memory limits/id/name (%r, %r, %r, %r) became (%r, %r, %r, %r)' % (
                        name, lim_r, lim_w, m.id, m.name, m2.max_read_ports, m2.max_write_ports, m2.id, m2.name), dict(replay, op=name))
        ctx.case(('port-limits', nr, nw, lim_r, lim_w), nontrivial=True)


def main(ctx):
    proofs_ok = proof_gate(ctx, gen_modules=['Clone'])
    n = ctx.n(150, 3000)
    if not proofs_ok:
        n *= 3
    agree = 0
    for k in ctx.loop(n):
        rng = ctx.rng
        d = gen.rand_design(rng, profile='small' if k % 3 else 'med', nops=rng.randint(3, 10), max_total=40,
                            wide_mem=False, nregs=rng.randint(1, 3), raw=False)
        steps = gen.rand_stimulus(rng, d, 4)
        _, memmap, _ = gen.rand_init(rng, d, with_default=False)
        ok = check_design(ctx, d, steps, memmap, 'copy#%d' % k)
        agree += ok
        desc = d.describe()
        ctx.case(('copy', desc['nets'], tuple(desc['ops']), tuple(w for _, w in desc['inputs'])), nontrivial=desc['nets'] >= 3)
        ctx.count('regs-with-nonzero-reset', sum(1 for r in d.regs if r.reset_value))
        ctx.count('roms', len(d.roms))
        ctx.sample({'design': desc, 'agree': ok})
        if len(ctx.violations) >= 6:
            break
    port_limits(ctx)
    ctx.oblige('observed:source untouched, copy disjoint and behaviourally identical', not ctx.violations,
               '%d/%d designs' % (agree, n))
    return conclude(ctx, rule='random designs with registers carrying reset values, memories, ROMs x {copy_block, '
                    'synthesize, optimize}(update_working_block=False) x edit/simulate sequences; distinct = (net count, op set, input widths)')
