"""C12 — imported BLIF and ISCAS netlists compute the function the file defines.

Random structured netlists are written out as BLIF / .bench text (covers of up to 4 inputs with
several rows and don't-cares, constant and empty covers, .latch with each init code, every listed
flip-flop cell, nested .subckt models, outputs read internally, bit-indexed vector ports), imported by
the real functions (both merge_io_vectors settings), and the imported block is evaluated in the Lean
Spec model against an interpreter of the file's semantics written from the BLIF / Yosys cell
definitions.  Proofs: Proofs/Props/C12.lean (flip-flop table regenerated from the source = Yosys cell
semantics for all pin valuations; special-cased covers = generic cover semantics)."""
import contextlib
import io
import itertools
import pyrtl
from pyrtl import Input, Output
from vlib import simrun
from vlib.common import proof_gate, conclude
from vlib.serialize import Ser

def source_dff_names():
    """the cell names the importer lists right now (read from the source, so a new or renamed entry is exercised)"""
    import ast
    import translate
    blif = translate.find_func(translate.parse('pyrtl/importexport.py'), 'input_from_blif')
    try:
        return [e.value for e in translate.find_assign(blif, 'dff_names').elts]
    except Exception:  # noqa
        return []


DFFS = source_dff_names()


def cell_pins(name):
    body = name.strip('$_').split('_')
    kind, pol = body[0], (body[1] if len(body) > 1 else '')
    has_e = kind in ('DFFE', 'DFFSRE', 'SDFFE', 'SDFFCE')
    has_s = kind in ('DFFSR', 'DFFSRE')
    has_r = len(pol) >= 3 or has_s
    return has_e, has_s, has_r


def yosys_next(name, d, e, s, r, q):
    """next state of the Yosys simcell `name` at a clock edge (async set/reset sampled at the edge)"""
    body = name.strip('$_').split('_')
    kind, pol = body[0], body[1]
    act = lambda v, ch: v == (1 if ch == 'P' else 0)   # noqa
    if kind == 'DFF' and len(pol) == 1:
        return d
    if kind == 'DFFE' and len(pol) == 2:
        return d if act(e, pol[1]) else q
    if kind == 'DFF' and len(pol) == 3:
        return int(pol[2]) if act(r, pol[1]) else d
    if kind == 'DFFE' and len(pol) == 4:
        return int(pol[2]) if act(r, pol[1]) else (d if act(e, pol[3]) else q)
    if kind == 'DFFSR':
        return 0 if act(r, pol[2]) else (1 if act(s, pol[1]) else d)
    if kind == 'DFFSRE':
        return 0 if act(r, pol[2]) else (1 if act(s, pol[1]) else (d if act(e, pol[3]) else q))
    if kind == 'SDFF':
        return int(pol[2]) if act(r, pol[1]) else d
    if kind == 'SDFFE':
        return int(pol[2]) if act(r, pol[1]) else (d if act(e, pol[3]) else q)
    if kind == 'SDFFCE':
        return (int(pol[2]) if act(r, pol[1]) else d) if act(e, pol[3]) else q
    raise ValueError(name)


class Model(object):
    def __init__(self, name):
        self.name = name
        self.inputs = []      # signal names (top: may be 'v[0]')
        self.outputs = []
        self.covers = []      # (ins, out, rows)   rows: list of strings over 01-, or 'TRUE'
        self.latches = []     # (d, q, init)
        self.flops = []       # (cell, d, e, s, r, q)
        self.insts = []       # (model, {formal: actual})
        self.clk = 'clk'      # name of the clock port
        self.gclk = 'clk'     # the net the sequential elements use (a buffered copy of clk in some models)


def rand_cover(rng, avail):
    k = rng.random()
    n = rng.randint(1, min(4, len(avail)))
    ins = rng.sample(avail, n)
    if k < 0.08:
        return [], 'TRUE'
    if k < 0.16:
        return (ins if rng.random() < 0.7 else []), []      # empty cover: constant 0 (with or without listed inputs)
    if k < 0.40:
        special = rng.choice([(1, ['1']), (1, ['0']), (2, ['11']), (2, ['1-', '-1']), (2, ['0-', '-0']), (2, ['10', '01'])])
        if len(avail) >= special[0]:
            return rng.sample(avail, special[0]), list(special[1])
    if k < 0.52 and n >= 2:
        # every row has exactly one literal (a 1 or a 0), the other positions don't-care; not every input is mentioned
        cols = rng.sample(range(n), rng.randint(1, n))
        lit = rng.choice('11110')
        rows = [''.join(lit if j == c_ else '-' for j in range(n)) for c_ in cols]
        if rng.random() < 0.3:
            rows.append(rows[0])
        return ins, rows
    rows = [''.join(rng.choice('01-') for _ in range(n)) for _ in range(rng.randint(1, 4))]
    return ins, rows


CLKNAMES = ['clk', 'C', 'ck', 'CLK']


def gen_model(rng, name, nin, submodels, top, ncov, nflops, vector_io):
    m = Model(name)
    if top and vector_io:
        w = rng.choice([2, 3, 3, 11, 12])      # >= 11 bits: lexicographic and numeric index order differ
        bits_ = ['va[%d]' % i for i in range(w)]
        if rng.random() < 0.3:
            rng.shuffle(bits_)
        m.inputs = bits_ + ['x%d' % i for i in range(max(1, nin - min(w, 3)))]
    else:
        m.inputs = ['x%d' % i for i in range(nin)]
    if not top:
        # names are local to a model: the clock formal of one model may be a data port of another
        m.clk = rng.choice(CLKNAMES)
        if rng.random() < 0.5:
            m.inputs[rng.randrange(len(m.inputs))] = rng.choice([n for n in CLKNAMES if n != m.clk])
    m.gclk = m.clk
    if rng.random() < 0.3:
        m.gclk = 'g_%s' % m.clk       # clock routed through a buffer (.names clk g_clk / 1 1)
    qs = ['q%d' % i for i in range(nflops)]
    avail = list(m.inputs) + qs
    sigs = []
    for k in range(ncov):
        ins, rows = rand_cover(rng, avail)
        out = 's%d' % k
        m.covers.append((ins, out, rows))
        avail.append(out)
        sigs.append(out)
    for sm in submodels:
        for inst in range(rng.choice([1, 1, 2])):
            fa = {}
            for f in sm.inputs:
                fa[f] = rng.choice(avail)
            outs = []
            for f in sm.outputs:
                a = '%s_i%d_%s' % (sm.name, len(m.insts), f)
                fa[f] = a
                outs.append(a)
            m.insts.append((sm, fa))
            avail += outs
            sigs += outs
    for k, q in enumerate(qs):
        d = rng.choice(avail)
        if rng.random() < 0.3 or not DFFS:
            m.latches.append((d, q, rng.choice('0123')))
        else:
            # the same cell type is used several times in one model, every instance with its own pins
            cell = m.flops[-1][0] if (m.flops and rng.random() < 0.5) else rng.choice(DFFS)
            m.flops.append((cell, d, rng.choice(avail), rng.choice(avail), rng.choice(avail), q))
    cands = sigs + qs
    nout = rng.randint(1, min(4, len(cands)))
    outs = rng.sample(cands, nout)
    if top and vector_io and len(outs) >= 2:
        # present two of the outputs as a vector port: alias signals through buffer covers
        vb = []
        wout = rng.choice([2, 2, 11, 12])
        for i in range(wout):
            nm = 'vo[%d]' % i
            m.covers.append(([outs[i % 2]] if wout == 2 else [rng.choice(cands)], nm, ['1']))
            vb.append(nm)
        if rng.random() < 0.5:
            # a second bit-indexed output vector (declared after, or interleaved with, the first)
            vp = []
            for i in range(rng.choice([2, 3])):
                nm = 'vp[%d]' % i
                m.covers.append(([rng.choice(cands)], nm, ['1']))
                vp.append(nm)
            vb = vb + vp if rng.random() < 0.6 else [x for pair in zip(vb, vp) for x in pair] + vb[len(vp):] + vp[len(vb):]
        outs = vb + outs[2:]
    m.outputs = outs
    return m


def clk_pos(n, name):
    # position of the clock connection among the formal=actual pairs (deterministic per model)
    return (len(name) * 7 + n) % (n + 1)


def to_blif(models):
    out = []
    for m in models:
        out.append('.model %s' % m.name)
        out.append('.inputs %s' % ' '.join(m.inputs + [m.clk]))
        out.append('.outputs %s' % ' '.join(m.outputs))
        if m.gclk != m.clk:
            out.append('.names %s %s' % (m.clk, m.gclk))
            out.append('1 1')
        for ins, o, rows in m.covers:
            out.append('.names %s' % ' '.join(list(ins) + [o]))
            if rows == 'TRUE':
                out.append('1')
            else:
                for r in rows:
                    out.append('%s 1' % r)
        for d, q, init in m.latches:
            out.append('.latch %s %s re %s %s' % (d, q, m.gclk, init))
        for cell, d, e, s, r, q in m.flops:
            he, hs, hr = cell_pins(cell)
            pins = 'C=%s D=%s' % (m.gclk, d) + (' E=%s' % e if he else '') + ' Q=%s' % q + (' S=%s' % s if hs else '') + (' R=%s' % r if hr else '')
            out.append('.subckt %s %s' % (cell, pins))
        for sm, fa in m.insts:
            pairs = ['%s=%s' % (f, a) for f, a in fa.items()]
            pairs.insert(clk_pos(len(pairs), sm.name), '%s=%s' % (sm.clk, m.gclk))
            out.append('.subckt %s %s' % (sm.name, ' '.join(pairs)))
        out.append('.end')
        out.append('')
    return '\n'.join(out)


class Inst(object):
    """interpreter state of one model instance"""

    def __init__(self, m):
        self.m = m
        self.state = {}
        for d, q, init in m.latches:
            self.state[q] = 1 if init == '1' else 0
        for f in m.flops:
            self.state[f[5]] = 0
        self.subs = [Inst(sm) for sm, _ in m.insts]

    def eval(self, invals):
        """returns values of all signals this cycle (combinational settle); sub-instances evaluated on demand"""
        v = dict(invals)
        v.update(self.state)
        pending_cov = list(self.m.covers)
        pending_inst = list(zip(self.subs, self.m.insts))
        self.subvals = {}
        progress = True
        while (pending_cov or pending_inst) and progress:
            progress = False
            for c in list(pending_cov):
                ins, o, rows = c
                if all(i in v for i in ins):
                    if rows == 'TRUE':
                        v[o] = 1
                    else:
                        v[o] = int(any(all(ch == '-' or int(ch) == v[i] for i, ch in zip(ins, r)) for r in rows))
                    pending_cov.remove(c)
                    progress = True
            for item in list(pending_inst):
                sub, (sm, fa) = item
                if all(fa[f] in v for f in sm.inputs):
                    sv = sub.eval({f: v[fa[f]] for f in sm.inputs})
                    for f in sm.outputs:
                        v[fa[f]] = sv[f]
                    pending_inst.remove(item)
                    progress = True
        if pending_cov or pending_inst:
            raise ValueError('combinational dependency not resolvable')
        self.v = v
        return v

    def tick(self):
        v = self.v
        new = {}
        for d, q, init in self.m.latches:
            new[q] = v[d]
        for cell, d, e, s, r, q in self.m.flops:
            new[q] = yosys_next(cell, v[d], v[e], v[s], v[r], self.state[q])
        self.state.update(new)
        for sub in self.subs:
            sub.tick()


def group_vectors(names):
    """{base: [bit names in index order]} for names like v[0]; scalars map to [name]"""
    import re
    groups = {}
    for n in names:
        mo = re.match(r'^(.*)\[(\d+)\]$', n)
        if mo:
            groups.setdefault(mo.group(1), {})[int(mo.group(2))] = n
        else:
            groups.setdefault(n, {})[0] = n
    return {b: [d[i] for i in sorted(d)] for b, d in groups.items()}


def check_blif(ctx, k):
    rng = ctx.rng
    subs = []
    if rng.random() < 0.5:
        leaf = gen_model(rng, 'leaf', rng.randint(1, 3), [], False, rng.randint(1, 3), rng.choice([0, 1]), False)
        subs.append(leaf)
        if rng.random() < 0.4:
            mid = gen_model(rng, 'mid', rng.randint(1, 3), [leaf], False, rng.randint(1, 2), rng.choice([0, 1]), False)
            subs = [mid, leaf] if rng.random() < 0.5 else [leaf, mid]
    usable = [s for s in subs if s.name == 'mid'] or subs
    if subs and rng.random() < 0.5:
        # a second, independent sub-model instantiated next to the first (either order)
        other = gen_model(rng, 'other', rng.randint(1, 3), [], False, rng.randint(1, 3), rng.choice([0, 0, 1]), False)
        subs.append(other)
        usable = usable + [other]
        rng.shuffle(usable)
    top = gen_model(rng, 'top', rng.randint(2, 4), usable if rng.random() < 0.8 else [], True, rng.randint(2, 6),
                    rng.randint(0, 3), rng.random() < 0.5)
    models = [top] + subs
    text = to_blif(models)
    merge = rng.random() < 0.5
    replay = {'kind': 'blif', 'text': text, 'merge_io_vectors': merge}
    # reference must be evaluable (no combinational loops by construction)
    ref = Inst(top)
    pyrtl.reset_working_block()
    try:
        with contextlib.redirect_stdout(io.StringIO()):
            pyrtl.input_from_blif(text, merge_io_vectors=merge)
        blk = pyrtl.working_block()
        blk.sanity_check()
    except Exception as e:  # noqa
        ctx.violation('blif-import-raises:' + type(e).__name__, 'input_from_blif raised %s on a netlist of the supported subset: %s' % (
            type(e).__name__, str(e)[:200]), replay)
        return
    ser = Ser(blk)
    ing = group_vectors([i for i in top.inputs])
    outg = group_vectors(top.outputs)
    ncyc = 8
    steps, refout = [], []
    for c in range(ncyc):
        bits = {i: rng.randrange(2) for i in top.inputs}
        v = ref.eval(bits)
        refout.append({o: v[o] for o in top.outputs})
        ref.tick()
        s = {}
        for base, members in ing.items():
            if len(members) == 1:
                s[members[0] if members[0] == base else base] = bits[members[0]]
            elif merge:
                s[base] = sum(bits[b] << i for i, b in enumerate(members))
            else:
                for b in members:
                    s[b] = bits[b]
        steps.append(s)
    have_inputs = set(w.name for w in blk.wirevector_subset(Input))
    if set(steps[0].keys()) != have_inputs:
        ctx.violation('blif-ports', 'imported block has inputs %r, the file defines %r (merge_io_vectors=%s)' % (
            sorted(have_inputs), sorted(steps[0].keys()), merge), replay)
        return
    resp = ctx.driver.ask(simrun.lean_request(ser, steps, {}, {}, 0, model='spec'))
    if not resp.get('ok'):
        ctx.violation('blif-import-malformed', 'imported block rejected by the model: %s' % resp.get('err'), replay)
        return
    tr = simrun.lean_trace(ser, resp)
    for c in range(ncyc):
        for base, members in outg.items():
            if len(members) == 1:
                got = tr.get(members[0] if members[0] == base else base, [None] * ncyc)[c]
                want = refout[c][members[0]]
            elif merge:
                got = tr.get(base, [None] * ncyc)[c]
                want = sum(refout[c][b] << i for i, b in enumerate(members))
            else:
                got = [tr.get(b, [None] * ncyc)[c] for b in members]
                want = [refout[c][b] for b in members]
            if got != want:
                ctx.violation('blif-function', 'cycle %d output %s: imported block gives %r, the BLIF file defines %r (merge_io_vectors=%s)' % (
                    c, base, got, want, merge), dict(replay, cycle=c, output=base, steps=steps))
                return
    ctx.case(text, nontrivial=True)
    ctx.count('models', len(models))
    for cell, *_ in top.flops:
        ctx.count('flop-cell', cell)
    for _, _, init in top.latches:
        ctx.count('latch-init', init)
    for ins, o, rows in top.covers:
        ctx.count('cover', 'TRUE' if rows == 'TRUE' else ('empty' if not rows else 'rows=%d' % len(rows)))
    ctx.sample({'blif': text[:400], 'merge_io_vectors': merge})


def check_cells(ctx):
    """every listed flip-flop cell, every polarity, on random pin sequences"""
    rng = ctx.rng
    for name in DFFS:
        he, hs, hr = cell_pins(name)
        pins = 'C=clk D=d' + (' E=e' if he else '') + ' Q=q' + (' S=s' if hs else '') + (' R=r' if hr else '')
        text = '.model top\n.inputs clk d e s r\n.outputs q\n.subckt %s %s\n.end\n' % (name, pins)
        pyrtl.reset_working_block()
        try:
            with contextlib.redirect_stdout(io.StringIO()):
                pyrtl.input_from_blif(text)
            blk = pyrtl.working_block()
        except Exception as ex:  # noqa
            ctx.violation('blif-cell-raises:' + name, 'input_from_blif raised %s for cell %s' % (type(ex).__name__, name), {'kind': 'blif', 'text': text})
            continue
        ser = Ser(blk)
        innames = sorted(w.name for w in blk.wirevector_subset(Input))
        seq = [{k_: rng.randrange(2) for k_ in 'desr'} for _ in range(40)]
        resp = ctx.driver.ask(simrun.lean_request(ser, [{n: s_[n] for n in innames} for s_ in seq], {}, {}, 0, model='spec', watch=['q']))
        q = 0
        for c, v in enumerate(seq):
            ctx.evaluations += 1
            if resp['trace'][c][0] != q:
                ctx.violation('blif-cell:' + name, 'cell %s: q=%d at cycle %d, Yosys cell semantics give %d' % (name, resp['trace'][c][0], c, q),
                              {'kind': 'blif', 'text': text, 'pins': seq[:c + 1]})
                break
            q = yosys_next(name, v['d'], v['e'], v['s'], v['r'], q)
        ctx.distinct.add(name)


def check_bench(ctx, k):
    rng = ctx.rng
    nin = rng.randint(2, 5)
    two_only = rng.random() < 0.7
    ins = ['I%d' % i for i in range(nin)]
    avail = list(ins)
    dffs = ['F%d' % i for i in range(rng.randint(0, 2))]
    avail += dffs
    lines = ['INPUT(%s)' % i for i in ins]
    gates = []
    for g in range(rng.randint(2, 7)):
        kind = rng.choice(['AND', 'OR', 'NAND', 'NOR', 'XOR', 'NOT', 'BUFF'])
        if kind in ('NOT', 'BUFF'):
            srcs = [rng.choice(avail)]
        else:
            srcs = [rng.choice(avail) for _ in range(2 if two_only else rng.choice([2, 3, 4]))]
        name = 'G%d' % g
        gates.append((name, kind, srcs))
        avail.append(name)
    dffdefs = [(f, rng.choice(avail)) for f in dffs]
    outs = rng.sample([g[0] for g in gates] + dffs, rng.randint(1, min(3, len(gates) + len(dffs))))
    lines += ['OUTPUT(%s)' % o for o in outs]
    # .bench files list definitions in any order; DFFs first so that their names exist
    for f, d in dffdefs:
        lines.append('%s = DFF(%s)' % (f, d))
    for name, kind, srcs in gates:
        lines.append('%s = %s(%s)' % (name, kind, ', '.join(srcs)))
    text = '\n'.join(lines) + '\n'
    replay = {'kind': 'bench', 'text': text}
    pyrtl.reset_working_block()
    try:
        with contextlib.redirect_stdout(io.StringIO()):
            pyrtl.input_from_iscas_bench(text)
        blk = pyrtl.working_block()
        blk.sanity_check()
    except Exception as e:  # noqa
        ctx.violation('bench-import-raises:' + type(e).__name__, 'input_from_iscas_bench raised %s: %s' % (type(e).__name__, str(e)[:200]), replay)
        return
    ser = Ser(blk)
    state = {f: 0 for f in dffs}
    steps, ref, allvals = [], [], []
    for c in range(8):
        bits = {i: rng.randrange(2) for i in ins}
        v = dict(bits)
        v.update(state)
        for name, kind, srcs in gates:
            vals = [v[s_] for s_ in srcs]
            if kind == 'AND':
                r = int(all(vals))
            elif kind == 'OR':
                r = int(any(vals))
            elif kind == 'NAND':
                r = int(not all(vals))
            elif kind == 'NOR':
                r = int(not any(vals))
            elif kind == 'XOR':
                r = sum(vals) % 2
            elif kind == 'NOT':
                r = 1 - vals[0]
            else:
                r = vals[0]
            v[name] = r
        ref.append({o: v[o] for o in outs})
        allvals.append(dict(v))
        state = {f: v[d] for f, d in dffdefs}
        steps.append(bits)
    gnames = [g[0] for g in gates]
    present = [g for g in gnames if g in blk.wirevector_by_name]
    resp = ctx.driver.ask(simrun.lean_request(ser, steps, {}, {}, 0, model='spec', watch=outs + present))
    if not resp.get('ok'):
        ctx.violation('bench-import-malformed', 'imported block rejected by the model: %s' % resp.get('err'), replay)
        return
    for c in range(8):
        row = resp['trace'][c]
        got = dict(zip(outs, row[:len(outs)]))
        internal = dict(zip(present, row[len(outs):]))
        # attribute a mismatch to the first gate (earliest cycle, definition order) whose own value is wrong
        first = None
        for name, kind, srcs in gates:
            if name in internal and internal[name] != allvals[c][name]:
                first = (name, kind, len(srcs))
                break
        if got != ref[c] or first is not None:
            if got == ref[c]:
                got = dict(got)
                got[first[0]] = internal[first[0]]
                ref[c] = dict(ref[c])
                ref[c][first[0]] = allvals[c][first[0]]
                outs = outs + [first[0]]
            o = [x for x in outs if got[x] != ref[c][x]][0]
            if first is not None and first[2] >= 3 and first[1] in ('AND', 'OR', 'NAND', 'NOR', 'XOR'):
                key = 'bench-nary-gate'
                what = ('input_from_iscas_bench uses only the first two sources of a gate: %s = %s(%d sources) evaluates to %d, '
                        'the .bench file defines %d' % (first[0], first[1], first[2], internal[first[0]], allvals[c][first[0]]))
            else:
                key = 'bench-function:' + ('%s%d' % (first[1], first[2]) if first else 'output')
                what = 'cycle %d output %s: imported block gives %d, the .bench file defines %d (first wrong gate: %r)' % (
                    c, o, got[o], ref[c][o], first)
            ctx.violation(key, what, dict(replay, cycle=c, steps=steps))
            return
    ctx.case(text, nontrivial=True)
    for name, kind, srcs in gates:
        ctx.count('bench-gate', '%s/%d' % (kind, len(srcs)))


def main(ctx):
    proofs_ok = proof_gate(ctx, gen_modules=['BlifTables'])
    n = ctx.n(400, 6000)
    for k in ctx.loop(n):
        check_blif(ctx, k)
        ctx.evaluations += 1
        if len(ctx.violations) >= 5:
            break
    check_cells(ctx)
    for k in range(ctx.n(200, 3000)):
        check_bench(ctx, k)
        ctx.evaluations += 1
        if len(ctx.violations) >= 8:
            break
    ctx.oblige('oracle:imported BLIF / ISCAS block = the function the file defines', not ctx.violations, '%d files' % ctx.evaluations)
    return conclude(ctx, rule='random BLIF files (covers <= 4 inputs with 1-4 rows and don\'t-cares, the special-cased patterns, constant '
                    'TRUE and empty covers with and without listed inputs, .latch init 0-3, every cell name listed in dff_names, '
                    'one- and two-level nested .subckt models, outputs read internally, vector ports, both merge settings) and random '
                    '.bench files (2-4-input gates, DFFs); 8 cycles each; distinct = distinct files')
