"""C13 — rtllib adders and multipliers are exact for all widths and values.

Every generator x mixed operand widths x parameters: the real netlist is evaluated in the Lean Spec
model on every value combination (exhaustive for small total width, boundary + random beyond) and
compared with exact integer arithmetic; kogge_stone / ripple_add / cla_adder netlists are also
compared with the Lean bit-list models the theorems of Proofs/Props/C13.lean are about."""
import itertools
import pyrtl
from pyrtl import Input, Output, Const
from pyrtl.rtllib import adders, multipliers
from vlib import simrun, gen
from vlib.common import proof_gate, conclude
from vlib.serialize import Ser


def sgn(v, w):
    return v - (1 << w) if v >> (w - 1) else v


def value_grid(rng, widths, limit):
    total = sum(widths)
    if total <= limit:
        return list(itertools.product(*[range(1 << w) for w in widths])), True
    vals = set()
    bnd = lambda n: sorted(set([0, 1, (1 << n) - 1, 1 << (n - 1), max(0, (1 << (n - 1)) - 1)]))   # noqa
    sets = [bnd(w) for w in widths]
    size = 1
    for s_ in sets:
        size *= len(s_)
    if size <= 4000:
        for combo in itertools.product(*sets):
            vals.add(combo)
    else:       # many operands: all-zero, all-max and a sample of the boundary combinations
        vals.add(tuple(0 for _ in widths))
        vals.add(tuple((1 << w) - 1 for w in widths))
        for _ in range(1500):
            vals.add(tuple(rng.choice(s_) for s_ in sets))
    for _ in range(40):
        vals.add(tuple(gen.rand_value(rng, w) for w in widths))
    return sorted(vals), False


def comb_case(ctx, name, widths, build, exact, rng, limit, lean=None, params=None):
    """build(inputs) -> result wire; exact(values) -> int (compared modulo 2^len(result) only if
    `exact_width` says the result must hold the exact value: we require exactness, so no modulo)."""
    pyrtl.reset_working_block()
    ins = [Input(w, 'x%d' % i) for i, w in enumerate(widths)]
    key = '%s%s%s' % (name, tuple(widths), '' if not params else str(params))
    try:
        r = build(ins)
    except Exception as e:  # noqa
        ctx.violation('generator-raises:' + name, '%s raised %s: %s' % (key, type(e).__name__, str(e)[:160]),
                      {'kind': 'generator', 'name': name, 'widths': widths, 'params': params})
        return
    o = Output(len(r), 'o')
    o <<= r
    blk = pyrtl.working_block()
    try:
        blk.sanity_check()
    except Exception as e:  # noqa
        ctx.violation('generator-malformed:' + name, '%s builds a malformed block: %s' % (key, str(e)[:160]),
                      {'kind': 'generator', 'name': name, 'widths': widths, 'params': params})
        return
    ser = Ser(blk)
    vals, exh = value_grid(rng, widths, limit)
    steps = [{'x%d' % i: v for i, v in enumerate(c)} for c in vals]
    resp = ctx.driver.ask(simrun.lean_request(ser, steps, {}, {}, 0, model='spec', watch=['o']))
    if not resp.get('ok'):
        raise RuntimeError('spec rejected %s: %s' % (key, resp))
    got = [row[0] for row in resp['trace']]
    for c, g in zip(vals, got):
        want = exact(c)
        wantm = want & ((1 << len(r)) - 1) if want < 0 else want
        if g != wantm:
            ctx.violation('inexact:' + name, '%s on %r gives %d (in %d bits), exact result %d' % (key, c, g, len(r), want),
                          {'kind': 'generator', 'name': name, 'widths': widths, 'params': params, 'values': list(c),
                           'got': g, 'want': want, 'result_width': len(r)})
            break
    if lean is not None:
        m = ctx.driver.ask({'cmd': 'adder', 'fn': lean, 'widths': widths, 'params': params or {},
                            'cases': [list(c) for c in vals]})
        if not m.get('ok'):
            raise RuntimeError('adder model: %s' % m)
        ctx.tie_n = getattr(ctx, 'tie_n', 0) + 1
        if m['vals'] != got or m['width'] != len(r):
            ctx.tie_bad = getattr(ctx, 'tie_bad', 0) + 1
            ctx.tie_only = getattr(ctx, 'tie_only', []) + [{'gen': key, 'model_width': m['width'], 'real_width': len(r)}]
    ctx.evaluations += len(vals)
    ctx.distinct.add(key)
    ctx.count('generator', name)
    ctx.count('exhaustive' if exh else 'sampled', name)
    ctx.sample({'generator': name, 'widths': widths, 'params': params, 'cases': len(vals), 'exhaustive': exh}, limit=6)


def seq_case(ctx, name, wa, wb, shifts, rng):
    """simple_mult / complex_mult: start pulse, operands held stable; done within len(A)+1 cycles of
    start and then the product is held."""
    pyrtl.reset_working_block()
    A, B, start = Input(wa, 'A'), Input(wb, 'B'), Input(1, 'start')
    key = '%s(%d,%d%s)' % (name, wa, wb, '' if shifts is None else ',shifts=%d' % shifts)
    try:
        if name == 'simple_mult':
            res, done = multipliers.simple_mult(A, B, start)
        else:
            res, done = multipliers.complex_mult(A, B, shifts, start)
    except Exception as e:  # noqa
        ctx.violation('generator-raises:' + name, '%s raised %s: %s' % (key, type(e).__name__, str(e)[:160]),
                      {'kind': 'seq', 'name': name, 'wa': wa, 'wb': wb, 'shifts': shifts})
        return
    o = Output(len(res), 'o')
    o <<= res
    dn = Output(1, 'done')
    dn <<= done
    blk = pyrtl.working_block()
    ser = Ser(blk)
    vals, exh = value_grid(rng, [wa, wb], 8)
    ncyc = wa + 4
    for (a, b) in vals[:ctx.n(40, 400)]:
        steps = [{'A': a, 'B': b, 'start': 1}] + [{'A': a, 'B': b, 'start': 0} for _ in range(ncyc)]
        resp = ctx.driver.ask(simrun.lean_request(ser, steps, {}, {}, 0, model='spec', watch=['o', 'done']))
        if not resp.get('ok'):
            raise RuntimeError('spec rejected %s: %s' % (key, resp))
        tr = resp['trace']
        # cycle 0 is the start cycle; registers load at its end.  done must be 1 at some cycle <= len(A)+1
        first = next((c for c in range(1, len(tr)) if tr[c][1] == 1), None)
        ctx.evaluations += 1
        if first is None or first > wa + 1:
            ctx.violation('not-done:' + name, '%s with A=%d B=%d: done not raised within len(A)+1=%d cycles of start (first=%r)' % (
                key, a, b, wa + 1, first), {'kind': 'seq', 'name': name, 'wa': wa, 'wb': wb, 'shifts': shifts, 'A': a, 'B': b})
            break
        bad = [c for c in range(first, len(tr)) if tr[c][0] != a * b or tr[c][1] != 1]
        if bad:
            ctx.violation('wrong-product:' + name, '%s with A=%d B=%d: at cycle %d after done result=%d done=%d, product %d' % (
                key, a, b, bad[0], tr[bad[0]][0], tr[bad[0]][1], a * b),
                {'kind': 'seq', 'name': name, 'wa': wa, 'wb': wb, 'shifts': shifts, 'A': a, 'B': b})
            break
    # a second start pulse, while the first multiplication is still in flight or after it is done: every start
    # pulse begins a multiplication of the operands then present
    for (a, b) in vals[:ctx.n(12, 100)]:
        a0, b0 = rng.getrandbits(wa) | (1 << (wa - 1)), rng.getrandbits(wb) | 1
        k = rng.randint(1, wa + 3)
        steps = [{'A': a0, 'B': b0, 'start': 1}] + [{'A': a0, 'B': b0, 'start': 0} for _ in range(k - 1)] + \
                [{'A': a, 'B': b, 'start': 1}] + [{'A': a, 'B': b, 'start': 0} for _ in range(ncyc)]
        resp = ctx.driver.ask(simrun.lean_request(ser, steps, {}, {}, 0, model='spec', watch=['o', 'done']))
        if not resp.get('ok'):
            raise RuntimeError('spec rejected %s: %s' % (key, resp))
        tr = resp['trace']
        first = next((c for c in range(k + 1, len(tr)) if tr[c][1] == 1), None)
        ctx.evaluations += 1
        rep = {'kind': 'seq-restart', 'name': name, 'wa': wa, 'wb': wb, 'shifts': shifts, 'first': [a0, b0], 'second': [a, b],
               'second_start_cycle': k}
        if first is None or first > k + wa + 1:
            ctx.violation('not-done-after-restart:' + name, '%s: A=%d B=%d started %d cycle(s) after a multiplication of %d x %d was started: '
                          'done not raised within len(A)+1=%d cycles of that start' % (key, a, b, k, a0, b0, wa + 1), rep)
            break
        bad = [c for c in range(first, len(tr)) if tr[c][0] != a * b or tr[c][1] != 1]
        if bad:
            ctx.violation('wrong-product-after-restart:' + name, '%s: A=%d B=%d started %d cycle(s) after a multiplication of %d x %d was started: '
                          'at cycle %d result=%d done=%d, product %d' % (key, a, b, k, a0, b0, bad[0], tr[bad[0]][0], tr[bad[0]][1], a * b), rep)
            break
    ctx.distinct.add(key)
    ctx.count('generator', name)


def seq_tie(ctx, name, wa, wb, shifts, rng):
    """Tie of the Lean register-level model (Model/Lib/SeqMult.lean, about which the theorems
    seq_mult_done_and_exact / seq_mult_exact_whenever_done speak) to the real netlist: random histories of
    start pulses (also while a multiplication is in flight) and freely changing operands, compared cycle by
    cycle on accum and done.  Returns (cases, mismatches)."""
    pyrtl.reset_working_block()
    A, B, start = Input(wa, 'A'), Input(wb, 'B'), Input(1, 'start')
    try:
        if name == 'simple_mult':
            res, done = multipliers.simple_mult(A, B, start)
        else:
            res, done = multipliers.complex_mult(A, B, shifts, start)
    except Exception:  # noqa  (reported by seq_case)
        return 0, 0
    o = Output(len(res), 'o')
    o <<= res
    dn = Output(1, 'done')
    dn <<= done
    ser = Ser(pyrtl.working_block())
    n = bad = 0
    for _ in range(ctx.n(3, 12)):
        steps = []
        for c in range(3 * wa + 8):
            steps.append({'start': int(rng.random() < 0.25), 'A': rng.choice([0, 1, (1 << wa) - 1, rng.getrandbits(wa)]),
                          'B': rng.choice([0, 1, (1 << wb) - 1, rng.getrandbits(wb)])})
        resp = ctx.driver.ask(simrun.lean_request(ser, steps, {}, {}, 0, model='spec', watch=['o', 'done']))
        if not resp.get('ok'):
            raise RuntimeError('spec rejected %s: %s' % (name, resp))
        mod = ctx.driver.ask({'cmd': 'seqmult', 'alen': wa, 'blen': wb, 'shifts': shifts or 1,
                              'steps': [[s_['start'], s_['A'], s_['B']] for s_ in steps]})
        if not mod.get('ok'):
            raise RuntimeError('seqmult model: %s' % mod)
        n += 1
        got = [list(t) for t in resp['trace']]
        if got != [list(t) for t in mod['trace']]:
            bad += 1
            c = next(i for i in range(len(got)) if got[i] != list(mod['trace'][i]))
            ctx.extra.setdefault('seqmult_tie_mismatch', []).append(
                {'generator': name, 'wa': wa, 'wb': wb, 'shifts': shifts, 'cycle': c, 'netlist': got[c], 'model': mod['trace'][c], 'steps': steps[:c + 1]})
    return n, bad


def main(ctx):
    proofs_ok = proof_gate(ctx, gen_modules=[])
    rng = ctx.rng
    maxw = ctx.n(5, 9)
    limit = ctx.n(10, 12)
    ws = list(range(1, maxw + 1))
    pairs = [(a, b) for a in ws for b in ws]
    extra = [(rng.choice([8, 12, 16]), rng.choice([1, 3, 8, 16])) for _ in range(ctx.n(6, 40))]
    for (wa, wb) in pairs + extra:
        comb_case(ctx, 'kogge_stone', [wa, wb], lambda i: adders.kogge_stone(i[0], i[1]), lambda v: v[0] + v[1], rng, limit, 'kogge_stone')
        comb_case(ctx, 'ripple_add', [wa, wb], lambda i: adders.ripple_add(i[0], i[1]), lambda v: v[0] + v[1], rng, limit, 'ripple_add')
        # every adder with a carry-in wire, operands of either length order
        comb_case(ctx, 'ripple_add_cin', [wa, wb, 1], lambda i: adders.ripple_add(i[0], i[1], i[2]),
                  lambda v: v[0] + v[1] + v[2], rng, limit, 'ripple_add')
        comb_case(ctx, 'cla_adder_cin', [wa, wb, 1], lambda i: adders.cla_adder(i[0], i[1], i[2]),
                  lambda v: v[0] + v[1] + v[2], rng, limit, 'cla_adder', {'la_unit_len': 4})
        for ul in (1, 2, 3, 4):
            if ul != 4 and rng.random() < 0.5:
                continue
            comb_case(ctx, 'cla_adder', [wa, wb], lambda i, ul=ul: adders.cla_adder(i[0], i[1], la_unit_len=ul),
                      lambda v: v[0] + v[1], rng, limit, 'cla_adder', {'la_unit_len': ul})
        comb_case(ctx, 'kogge_stone_cin', [wa, wb, 1], lambda i: adders.kogge_stone(i[0], i[1], i[2]),
                  lambda v: v[0] + v[1] + v[2], rng, limit, 'kogge_stone')
        comb_case(ctx, 'tree_multiplier', [wa, wb], lambda i: multipliers.tree_multiplier(i[0], i[1]), lambda v: v[0] * v[1], rng, limit,
                  'tree_multiplier')
        if rng.random() < 0.4:
            comb_case(ctx, 'tree_multiplier_ripple', [wa, wb], lambda i: multipliers.tree_multiplier(i[0], i[1], adder_func=adders.ripple_add),
                      lambda v: v[0] * v[1], rng, limit, 'tree_multiplier', {'final_adder': 'ripple_add'})
        if rng.random() < 0.4:
            comb_case(ctx, 'tree_multiplier_dada', [wa, wb],
                      lambda i: multipliers.tree_multiplier(i[0], i[1], reducer=adders.dada_reducer, adder_func=adders.ripple_add),
                      lambda v: v[0] * v[1], rng, limit)
        if wa >= 2 and wb >= 2:
            comb_case(ctx, 'signed_tree_multiplier', [wa, wb], lambda i: multipliers.signed_tree_multiplier(i[0], i[1]),
                      lambda v: sgn(v[0], wa) * sgn(v[1], wb), rng, limit, 'signed_tree_multiplier')
    triples = [(a, b, c) for a in range(1, 5) for b in range(1, 5) for c in range(1, 5)]
    rng.shuffle(triples)
    for (wa, wb, wc) in triples[:ctx.n(24, 64)]:
        if min(wa, wb, wc) >= 2 or True:
            comb_case(ctx, 'carrysave_adder', [wa, wb, wc], lambda i: adders.carrysave_adder(i[0], i[1], i[2]),
                      lambda v: v[0] + v[1] + v[2], rng, limit, 'carrysave_adder')
        comb_case(ctx, 'fused_multiply_adder', [wa, wb, wc], lambda i: multipliers.fused_multiply_adder(i[0], i[1], i[2]),
                  lambda v: v[0] * v[1] + v[2], rng, limit, 'generalized_fma', {'npairs': 1})
        for red in (adders.wallace_reducer, adders.dada_reducer):
            comb_case(ctx, 'fast_group_adder_' + red.__name__, [wa, wb, wc],
                      lambda i, red=red: adders.fast_group_adder(i, reducer=red), lambda v: sum(v), rng, limit,
                      'fast_group_adder' if red is adders.wallace_reducer else None)
    quads = [tuple(rng.randint(1, 4) for _ in range(4)) for _ in range(ctx.n(10, 60))]
    for q in quads:
        comb_case(ctx, 'fast_group_adder4', list(q), lambda i: adders.fast_group_adder(i), lambda v: sum(v), rng, limit, 'fast_group_adder')
        n_ops = rng.randint(5, 9)
        ws_ = [rng.randint(1, 3) for _ in range(n_ops)]
        comb_case(ctx, 'fast_group_adder%d' % n_ops, ws_, lambda i: adders.fast_group_adder(i, final_adder=adders.ripple_add), lambda v: sum(v), rng, min(limit, 8),
                  'fast_group_adder', {'final_adder': 'ripple_add'})
        comb_case(ctx, 'generalized_fma', list(q) + [rng.randint(1, 4)],
                  lambda i: multipliers.generalized_fma([(i[0], i[1]), (i[2], i[3])], [i[4]]),
                  lambda v: v[0] * v[1] + v[2] * v[3] + v[4], rng, limit, 'generalized_fma', {'npairs': 2})
        comb_case(ctx, 'fast_group_adder2', list(q[:2]), lambda i: adders.fast_group_adder(i), lambda v: sum(v), rng, limit, 'fast_group_adder')
    # degenerate argument lists: one operand, products only, addends only (the reducer has nothing to add up)
    for w1 in range(1, ctx.n(6, 9)):
        for red in (adders.wallace_reducer, adders.dada_reducer):
            comb_case(ctx, 'fast_group_adder1_' + red.__name__, [w1], lambda i, red=red: adders.fast_group_adder(i, reducer=red),
                      lambda v: v[0], rng, limit, 'fast_group_adder' if red is adders.wallace_reducer else None)
        comb_case(ctx, 'generalized_fma_addend_only', [w1], lambda i: multipliers.generalized_fma([], [i[0]]), lambda v: v[0], rng, limit,
                  'generalized_fma', {'npairs': 0})
        comb_case(ctx, 'generalized_fma_1xN', [1, w1], lambda i: multipliers.generalized_fma([(i[0], i[1])], []),
                  lambda v: v[0] * v[1], rng, limit, 'generalized_fma', {'npairs': 1})
        comb_case(ctx, 'generalized_fma_Nx1', [w1, 1], lambda i: multipliers.generalized_fma([(i[0], i[1])], []),
                  lambda v: v[0] * v[1], rng, limit, 'generalized_fma', {'npairs': 1})
    sq_n = sq_bad = 0
    for (wa, wb) in [(a, b) for a in range(1, ctx.n(5, 8)) for b in range(1, ctx.n(5, 8))]:
        seq_case(ctx, 'simple_mult', wa, wb, None, rng)
        if wa > 1 and wb > 1:      # 1-bit operands take the combinational shortcut (_trivial_mult), not the state machine
            n_, b_ = seq_tie(ctx, 'simple_mult', wa, wb, None, rng)
            sq_n, sq_bad = sq_n + n_, sq_bad + b_
        for sh in range(1, min(wa, wb) + 1):
            if rng.random() < 0.5:
                seq_case(ctx, 'complex_mult', wa, wb, sh, rng)
                n_, b_ = seq_tie(ctx, 'complex_mult', wa, wb, sh, rng)
                sq_n, sq_bad = sq_n + n_, sq_bad + b_
    tb, tn = getattr(ctx, 'tie_bad', 0), getattr(ctx, 'tie_n', 0)
    ctx.oblige('tie:real adder netlists = Lean bit-list models', tb == 0, '%d/%d (generator, widths) tables differ' % (tb, tn))
    ctx.oblige('tie:simple_mult/complex_mult netlists = Lean SeqMult model (random start/operand histories)', sq_bad == 0,
               '%d/%d histories differ' % (sq_bad, sq_n))
    if tb and not ctx.violations:
        ctx.extra['tie_only_examples'] = getattr(ctx, 'tie_only', [])[:3]
    ctx.oblige('property:every generator exact on every explored width/value', not ctx.violations, '%d generator instances' % len(ctx.distinct))
    return conclude(ctx, rule='every adder/multiplier generator x mixed operand widths 1..%d (plus a few up to 16) x reducer / '
                    'final adder / la_unit_len / shifts x values (exhaustive when total width <= %d, else boundary incl. the most '
                    'negative operand + random); sequential multipliers cycle by cycle; distinct = generator instances' % (maxw, limit))
