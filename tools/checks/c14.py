"""C14 — multiplexing and bit-manipulation helpers select exactly the documented bits.

Every helper x shape grid: the real netlist is evaluated in the Lean Spec model on exhaustive / boundary
values and compared with the documented selection (exact Python oracle); mux / demux /
prioritized_mux netlists are also compared with the Lean models the theorems are about."""
import enum
import itertools
import pyrtl
from pyrtl import Input, Output, Const, WireVector
from pyrtl.rtllib import muxes, barrel, libutils
from vlib import simrun, gen
from vlib.common import proof_gate, conclude
from vlib.serialize import Ser


def run_case(ctx, name, widths, build, oracle, rng, limit=10, shape=None, lean=None):
    """build(inputs) -> list of result wires; oracle(values) -> list of ints or None (= don't care)"""
    pyrtl.reset_working_block()
    ins = [Input(w, 'x%d' % i) for i, w in enumerate(widths)]
    key = '%s%s%s' % (name, tuple(widths), '' if shape is None else repr(shape))
    try:
        rs = build(ins)
    except Exception as e:  # noqa
        ctx.violation('helper-raises:' + name, '%s raised %s: %s' % (key, type(e).__name__, str(e)[:160]),
                      {'kind': 'helper', 'name': name, 'widths': widths, 'shape': repr(shape)})
        return
    outs = []
    for k, r in enumerate(rs):
        o = Output(r.bitwidth, 'o%d' % k)   # (len() of a wire_struct / wire_matrix counts components)
        o <<= r
        outs.append(o)
    ser = Ser(pyrtl.working_block())
    total = sum(widths)
    if total <= limit:
        vals = list(itertools.product(*[range(1 << w) for w in widths]))
        exh = True
    else:
        vs = set()
        for _ in range(80):
            vs.add(tuple(gen.rand_value(rng, w) for w in widths))
        vals = sorted(vs)
        exh = False
    steps = [{'x%d' % i: v for i, v in enumerate(c)} for c in vals]
    resp = ctx.driver.ask(simrun.lean_request(ser, steps, {}, {}, 0, model='spec', watch=[o.name for o in outs]))
    if not resp.get('ok'):
        raise RuntimeError('spec rejected %s: %s' % (key, resp))
    for c, row in zip(vals, resp['trace']):
        want = oracle(c)
        if want is None:
            continue
        if len(want) != len(row):
            ctx.violation('wrong-arity:' + name, '%s returns %d results, documented %d' % (key, len(row), len(want)),
                          {'kind': 'helper', 'name': name, 'widths': widths, 'shape': repr(shape)})
            break
        bad = [(k, g, w) for k, (g, w) in enumerate(zip(row, want)) if w is not None and g != w]
        if bad:
            k, g, w = bad[0]
            ctx.violation('wrong-bits:' + name, '%s on %r: result %d is %d, documented value %d' % (key, c, k, g, w),
                          {'kind': 'helper', 'name': name, 'widths': widths, 'shape': repr(shape), 'values': list(c),
                           'result_index': k, 'got': g, 'want': w})
            break
    if lean is not None:
        m = ctx.driver.ask(dict(lean, cmd='muxes', cases=[list(c) for c in vals], widths=widths))
        if not m.get('ok'):
            raise RuntimeError('muxes model: %s' % m)
        ctx.tie_n = getattr(ctx, 'tie_n', 0) + 1
        if m['vals'] != [r for r in resp['trace']]:
            ctx.tie_bad = getattr(ctx, 'tie_bad', 0) + 1
            ctx.tie_only = getattr(ctx, 'tie_only', []) + [{'helper': key}]
    ctx.evaluations += len(vals)
    ctx.distinct.add(key)
    ctx.count('helper', name)
    ctx.count('exhaustive' if exh else 'sampled', name)
    ctx.sample({'helper': name, 'widths': widths, 'shape': repr(shape), 'cases': len(vals)}, limit=8)


def bits(v, idxs):
    return sum(((v >> i) & 1) << n for n, i in enumerate(idxs))


def main(ctx):
    proofs_ok = proof_gate(ctx, gen_modules=[])
    rng = ctx.rng
    reps = ctx.n(1, 4)
    for _ in range(reps):
        # ---- mux / select / default
        for sw in (1, 2, 3):
            n = 1 << sw
            dw = rng.choice([1, 2, 3])
            for nin in sorted(set([n, max(1, n - 1), max(1, n // 2 + 1), 1])):
                has_default = nin < n
                dflt = rng.getrandbits(dw)
                ws = [sw] + [dw] * nin
                run_case(ctx, 'mux', ws,
                         lambda i, nin=nin, has_default=has_default, dflt=dflt:
                         [pyrtl.mux(i[0], *i[1:1 + nin], **({'default': dflt} if has_default else {}))],
                         lambda c, nin=nin, dflt=dflt: [c[1 + c[0]] if c[0] < nin else dflt], rng, limit=11, shape=('nin', nin),
                         lean=({'fn': 'mux', 'nin': nin, 'default': dflt} if True else None))
        # a default (wire or constant) wider than every listed input: the result is as wide as the default
        for sw in (2, 3):
            nin = (1 << sw) - rng.randint(1, 3)
            dw, ddw = rng.choice([1, 2, 4]), rng.choice([6, 9, 12])
            run_case(ctx, 'mux_wide_default_wire', [sw] + [dw] * nin + [ddw],
                     lambda i, nin=nin: [pyrtl.mux(i[0], *i[1:1 + nin], default=i[1 + nin])],
                     lambda c, nin=nin: [c[1 + c[0]] if c[0] < nin else c[1 + nin]], rng, limit=11, shape=('nin', nin, 'wide-default'))
            cvd = rng.getrandbits(ddw) | (1 << (ddw - 1))
            run_case(ctx, 'mux_wide_default_const', [sw] + [dw] * nin,
                     lambda i, nin=nin, cvd=cvd, ddw=ddw: [pyrtl.mux(i[0], *i[1:1 + nin], default=Const(cvd, ddw))],
                     lambda c, nin=nin, cvd=cvd: [c[1 + c[0]] if c[0] < nin else cvd], rng, limit=11, shape=('nin', nin, 'wide-const-default'))
        run_case(ctx, 'select', [1, 3, 3], lambda i: [pyrtl.select(i[0], truecase=i[1], falsecase=i[2])],
                 lambda c: [c[1] if c[0] else c[2]], rng)
        # the (deprecated) keyword form of mux, operands of different widths
        run_case(ctx, 'mux_keywords', [1, 2, 4], lambda i: [pyrtl.mux(i[0], truecase=i[1], falsecase=i[2])],
                 lambda c: [c[1] if c[0] else c[2]], rng)
        run_case(ctx, 'select_positional', [1, 4, 2], lambda i: [pyrtl.select(i[0], i[1], i[2])],
                 lambda c: [c[1] if c[0] else c[2]], rng)
        run_case(ctx, 'select_mixed_width', [1, 2, 4], lambda i: [pyrtl.select(i[0], i[1], i[2])],
                 lambda c: [c[1] if c[0] else c[2]], rng)
        # ---- sparse_mux: listed indices, default only for unlisted ones
        for sw in (1, 2, 3, 4):
            n = 1 << sw
            listed = sorted(rng.sample(range(n), rng.randint(1, n)))
            dw = rng.choice([1, 2, 3])
            use_default = rng.random() < 0.6
            if use_default:
                def b_sparse(i, listed=listed):
                    d = {k: i[1 + j] for j, k in enumerate(listed)}
                    d[muxes.SparseDefault] = i[1 + len(listed)]
                    # the same table dict is used for a second mux
                    return [muxes.sparse_mux(i[0], d), muxes.sparse_mux(i[0], d)]
                ws = [sw] + [dw] * (len(listed) + 1)
                run_case(ctx, 'sparse_mux', ws, b_sparse,
                         lambda c, listed=listed: [c[1 + listed.index(c[0])] if c[0] in listed else c[1 + len(listed)]] * 2,
                         rng, limit=12, shape=('listed', listed, 'default'))
            else:
                ws = [sw] + [dw] * len(listed)
                run_case(ctx, 'sparse_mux', ws,
                         lambda i, listed=listed: [muxes.sparse_mux(i[0], {k: i[1 + j] for j, k in enumerate(listed)})],
                         lambda c, listed=listed: [c[1 + listed.index(c[0])]] if c[0] in listed else None,
                         rng, limit=12, shape=('listed', listed))
        # only small indices listed (of a 3- or 4-bit select) plus a default: every unlisted index, the ones above the
        # next power of two of the largest listed index included, delivers the default; also through MultiSelector
        for sw in (3, 4):
            listed = sorted(rng.sample(range(1, 4), 2))
            dw = rng.choice([2, 3])

            def b_low(i, listed=listed):
                d = {k: i[1 + j] for j, k in enumerate(listed)}
                d[muxes.SparseDefault] = i[1 + len(listed)]
                outs = [muxes.sparse_mux(i[0], d)]
                ow = WireVector(len(i[1]))
                with muxes.MultiSelector(i[0], ow) as ms:
                    for j, k in enumerate(listed):
                        ms.option(k, i[1 + j])
                    ms.default(i[1 + len(listed)])
                return outs + [ow]
            run_case(ctx, 'sparse_mux_low_indices', [sw] + [dw] * 3, b_low,
                     lambda c, listed=listed: [c[1 + listed.index(c[0])] if c[0] in listed else c[3]] * 2,
                     rng, limit=16, shape=('listed', listed, 'default', sw))
        # sparse_mux with equal constants collapsed
        run_case(ctx, 'sparse_mux_consts', [2, 3],
                 lambda i: [muxes.sparse_mux(i[0], {0: Const(5, 3), 1: Const(5, 3), 2: i[1], 3: Const(5, 3)})],
                 lambda c: [c[1] if c[0] == 2 else 5], rng)
        # ---- enum_mux
        class Op(enum.IntEnum):
            A = 0
            B = 1
            C = 3
        run_case(ctx, 'enum_mux', [2, 3, 3, 3, 3],
                 lambda i: [pyrtl.enum_mux(i[0], {Op.A: i[1], Op.B: i[2], Op.C: i[3]}, default=i[4])],
                 lambda c: [{0: c[1], 1: c[2], 3: c[3]}.get(c[0], c[4])], rng, limit=14)
        run_case(ctx, 'enum_mux_otherwise', [2, 3, 3, 3],
                 lambda i: [pyrtl.enum_mux(i[0], {Op.A: i[1], Op.C: i[2], pyrtl.otherwise: i[3]})],
                 lambda c: [{0: c[1], 3: c[2]}.get(c[0], c[3])], rng, limit=12)
        # ---- prioritized_mux
        for n in (1, 2, 3, 5):
            dw = 2
            ws = [1] * n + [dw] * n
            run_case(ctx, 'prioritized_mux', ws, lambda i, n=n: [muxes.prioritized_mux(list(i[:n]), list(i[n:]))],
                     lambda c, n=n: [next((c[n + k] for k in range(n) if c[k]), c[2 * n - 1])], rng, limit=15, shape=n,
                     lean={'fn': 'prioritized_mux', 'n': n})
        # ---- MultiSelector
        def b_ms(i):
            o1, o2 = pyrtl.WireVector(3), pyrtl.WireVector(2)
            with muxes.MultiSelector(i[0], o1, o2) as ms:
                ms.option(0, i[1], i[2])
                ms.option(2, i[3], 1)
                ms.default(7, i[2])
            return [o1, o2]
        run_case(ctx, 'MultiSelector', [2, 3, 2, 3], b_ms,
                 lambda c: [c[1], c[2]] if c[0] == 0 else ([c[3], 1] if c[0] == 2 else [7, c[2]]), rng, limit=10)
        # options declared in any order (not ascending), the default clause anywhere among them or absent when every
        # value has its option; data from wires or plain ints
        for _ms in range(ctx.n(4, 20)):
            sw = rng.choice([1, 2, 3])
            vals = list(range(1 << sw))
            rng.shuffle(vals)
            full = rng.random() < 0.4
            opts = vals if full else vals[:rng.randint(1, len(vals) - 1)]
            dpos = None if full else rng.randint(0, len(opts))
            plan = [(v, rng.choice(['wire', 'int']), rng.getrandbits(3), rng.getrandbits(2)) for v in opts]
            dplan = (rng.getrandbits(3), rng.getrandbits(2))

            def b_ms2(i, plan=plan, dpos=dpos, dplan=dplan):
                o1, o2 = pyrtl.WireVector(3), pyrtl.WireVector(2)
                with muxes.MultiSelector(i[0], o1, o2) as ms:
                    for k, (v, kind, c1, c2) in enumerate(plan):
                        if dpos == k:
                            ms.default(dplan[0], i[2])
                        ms.option(v, (i[1] ^ c1) if kind == 'wire' else c1, c2)
                    if dpos == len(plan):
                        ms.default(dplan[0], i[2])
                return [o1, o2]

            def o_ms2(c, plan=plan, dplan=dplan):
                for (v, kind, c1, c2) in plan:
                    if c[0] == v:
                        return [(c[1] ^ c1) if kind == 'wire' else c1, c2]
                return [dplan[0], c[2]]
            run_case(ctx, 'MultiSelector', [sw, 3, 2], b_ms2, o_ms2, rng, limit=10, shape=('order', tuple(opts), dpos))
        # ---- demux
        for sw in (1, 2, 3):
            run_case(ctx, 'demux', [sw], lambda i: list(muxes.demux(i[0])),
                     lambda c, sw=sw: [int(c[0] == k) for k in range(1 << sw)], rng, shape=sw, lean={'fn': 'demux'})
        # ---- barrel shifter: shift amounts wider than log2(width), both directions, fill bit
        for w in (1, 2, 3, 4, 5, 8):
            for sw in (1, 2, 3, 4):
                def oracle(c, w=w):
                    v, bin_, d, s = c
                    fill = (1 << w) - 1 if bin_ else 0
                    if d:   # up
                        return [((v << s) | (fill & ((1 << min(s, w)) - 1))) & ((1 << w) - 1) if s < w else fill]
                    return [(v >> s) | ((fill << max(0, w - s)) & ((1 << w) - 1)) if s < w else fill]
                run_case(ctx, 'barrel_shifter', [w, 1, 1, sw], lambda i: [barrel.barrel_shifter(i[0], i[1], i[2], i[3])],
                         oracle, rng, limit=12, shape=(w, sw))
        # ---- bitfield_update_set: several disjoint Python slices (None, negative, open-ended bounds) at once
        for w in (4, 6, 8):
            for _k in range(ctx.n(4, 12)):
                cuts = sorted(rng.sample(range(1, w), 2))
                forms = [[(None, cuts[0]), (cuts[1], None)], [(0, cuts[0]), (cuts[1] - w, None)], [(None, cuts[0] - w), (-1, None)],
                         [(cuts[0], cuts[1]), (-(w - cuts[1]), None)], [(cuts[0] - w, cuts[1] - w), (None, 1)] if cuts[0] >= 1 else None]
                form = rng.choice([f for f in forms if f])
                idxs = [list(range(w))[st:en] for st, en in form]
                if any(not ix for ix in idxs) or set(idxs[0]) & set(idxs[1]):
                    continue
                fws = [len(ix) for ix in idxs]

                def orc_set(c, idxs=idxs, fws=fws, w=w):
                    v = c[0]
                    for ix, fw, nv in zip(idxs, fws, c[1:]):
                        mask = sum(1 << i for i in ix)
                        v = (v & ~mask & ((1 << w) - 1)) | ((nv & ((1 << fw) - 1)) << ix[0])
                    return [v]
                run_case(ctx, 'bitfield_update_set', [w] + fws,
                         lambda i, form=form: [pyrtl.bitfield_update_set(i[0], {form[0]: i[1], form[1]: i[2]})],
                         orc_set, rng, limit=12, shape=(w, tuple(form)))
        # ---- bitfield_update: Python slice bounds
        for w in (1, 3, 5, 8):
            for _k in range(4):
                st = rng.choice([None, 0, 1, -1, -2, w // 2, w - 1])
                en = rng.choice([None, 1, -1, w // 2 + 1, w, w + 2])
                idx = list(range(w))[st:en]
                if not idx:
                    continue
                fw = len(idx)

                def orc(c, idx=idx, fw=fw, w=w):
                    v, nv = c
                    mask = sum(1 << i for i in idx)
                    return [(v & ~mask & ((1 << w) - 1)) | ((nv & ((1 << fw) - 1)) << idx[0])]
                run_case(ctx, 'bitfield_update', [w, fw], lambda i, st=st, en=en: [pyrtl.bitfield_update(i[0], st, en, i[1])],
                         orc, rng, limit=12, shape=(st, en))
        run_case(ctx, 'bitfield_update_set', [8, 2, 3],
                 lambda i: [pyrtl.bitfield_update_set(i[0], {(0, 2): i[1], (4, 7): i[2]})],
                 lambda c: [(c[0] & 0b10001100) | c[1] | (c[2] << 4)], rng, limit=13)
        run_case(ctx, 'bitfield_update_truncating', [4, 3],
                 lambda i: [pyrtl.bitfield_update(i[0], 1, 3, i[1], truncating=True)],
                 lambda c: [(c[0] & 0b1001) | ((c[1] & 3) << 1)], rng)
        # ---- match_bitpattern
        for _k in range(ctx.n(12, 60)):
            n = rng.randint(1, 8)
            pat = ''.join(rng.choice('01?ab') for _ in range(n))
            shown = ''
            for ch in pat:
                shown += ch + rng.choice(['', '', '_', ' '])
            clean = pat
            fields = []
            for ch in clean:
                if ch in 'ab' and ch not in fields:
                    fields.append(ch)

            def orc(c, clean=clean, fields=fields):
                v = c[0]
                n_ = len(clean)
                ok = all(((v >> (n_ - 1 - p)) & 1) == int(ch) for p, ch in enumerate(clean) if ch in '01')
                res = [int(ok)]
                for f in fields:
                    fv = 0
                    for p, ch in enumerate(clean):
                        if ch == f:
                            fv = (fv << 1) | ((v >> (n_ - 1 - p)) & 1)
                    res.append(fv)
                return res

            fmap = {'a': 'zeta', 'b': 'alpha'} if _k % 2 else None      # renamed fields (names sort the other way round)

            def bld(i, shown=shown, fmap=fmap, fields=fields):
                if fmap is None:
                    m, fl = pyrtl.match_bitpattern(i[0], shown)
                    return [m] + list(fl)
                m, fl = pyrtl.match_bitpattern(i[0], shown, {k_: v_ for k_, v_ in fmap.items() if k_ in fields})
                # positional order = order of first appearance in the pattern; and each field under its new name
                return [m] + list(fl) + [getattr(fl, fmap[f]) for f in fields]

            def orc2(c, orc=orc, fmap=fmap):
                r = orc(c)
                return r if fmap is None else r + r[1:]
            run_case(ctx, 'match_bitpattern' if fmap is None else 'match_bitpattern_field_map', [n], bld, orc2, rng, shape=shown)
        # ---- chop / partition_wire
        for _k in range(ctx.n(6, 30)):
            segs = [rng.randint(1, 4) for _ in range(rng.randint(1, 4))]
            W = sum(segs)

            def orc(c, segs=segs, W=W):
                v = c[0]
                out, hi = [], W
                for s in segs:
                    out.append((v >> (hi - s)) & ((1 << s) - 1))
                    hi -= s
                return out
            run_case(ctx, 'chop', [W], lambda i, segs=segs: list(pyrtl.chop(i[0], *segs)), orc, rng, limit=12, shape=segs)
            run_case(ctx, 'chop_concat', [W], lambda i, segs=segs: [pyrtl.concat(*pyrtl.chop(i[0], *segs))],
                     lambda c: [c[0]], rng, limit=12, shape=segs)
        for (W, ps) in ((8, 2), (6, 3), (4, 4), (5, 1)):
            run_case(ctx, 'partition_wire', [W], lambda i, ps=ps: list(libutils.partition_wire(i[0], ps)),
                     lambda c, W=W, ps=ps: [(c[0] >> o) & ((1 << ps) - 1) for o in range(0, W, ps)], rng, shape=ps)
            run_case(ctx, 'partition_concat', [W], lambda i, ps=ps: [pyrtl.concat_list(libutils.partition_wire(i[0], ps))],
                     lambda c: [c[0]], rng, shape=ps)
        # ---- wire_struct / wire_matrix incl. nesting
        @pyrtl.wire_struct
        class Byte:
            high: 4
            low: 4

        @pyrtl.wire_struct
        class Pair:
            first: Byte
            flag: 1
            second: 3
        Word = pyrtl.wire_matrix(component_schema=4, size=3)
        run_case(ctx, 'wire_struct', [8], lambda i: (lambda b: [b.high, b.low, b])(Byte(Byte=i[0])),
                 lambda c: [c[0] >> 4, c[0] & 15, c[0]], rng)
        run_case(ctx, 'wire_struct_build', [4, 4], lambda i: (lambda b: [b, b.high, b.low])(Byte(high=i[0], low=i[1])),
                 lambda c: [(c[0] << 4) | c[1], c[0], c[1]], rng)
        # components driven by plain wires that are narrower / wider than the declared field: the field keeps its width
        run_case(ctx, 'wire_struct_build_resized', [8, 8],
                 lambda i: (lambda b: [b, b.high, b.low])(Byte(high=i[0][0:3], low=i[1][0:6])),
                 lambda c: [((c[0] & 7) << 4) | (c[1] & 15), c[0] & 7, c[1] & 15], rng, limit=16)
        run_case(ctx, 'wire_struct_build_exprs', [4, 4],
                 lambda i: (lambda b: [b, b.high, b.low])(Byte(high=i[0] + i[1], low=i[0][0:2])),
                 lambda c: [(((c[0] + c[1]) & 15) << 4) | (c[0] & 3), (c[0] + c[1]) & 15, c[0] & 3], rng, limit=16)
        run_case(ctx, 'wire_matrix_build_resized', [6, 3],
                 lambda i: (lambda m: [m, m[0], m[1], m[2]])(Word(values=[i[0], i[1], i[0][1:4]])),
                 lambda c: [((c[0] & 15) << 8) | (c[1] << 4) | ((c[0] >> 1) & 7), c[0] & 15, c[1], (c[0] >> 1) & 7], rng, limit=16)
        run_case(ctx, 'wire_struct_nested', [12],
                 lambda i: (lambda p: [p.first, p.first.high, p.first.low, p.flag, p.second, p])(Pair(Pair=i[0])),
                 lambda c: [c[0] >> 4, c[0] >> 8, (c[0] >> 4) & 15, (c[0] >> 3) & 1, c[0] & 7, c[0]], rng, limit=12)
        run_case(ctx, 'wire_matrix', [12], lambda i: (lambda m: [m[0], m[1], m[2], m])(Word(values=[i[0]])),
                 lambda c: [c[0] >> 8, (c[0] >> 4) & 15, c[0] & 15, c[0]], rng, limit=12)
        Grid = pyrtl.wire_matrix(component_schema=Byte, size=2)
        run_case(ctx, 'wire_matrix_nested', [16], lambda i: (lambda m: [m[0], m[1].low, m[0].high])(Grid(values=[i[0]])),
                 lambda c: [c[0] >> 8, c[0] & 15, c[0] >> 12], rng, limit=8)
    tb, tn = getattr(ctx, 'tie_bad', 0), getattr(ctx, 'tie_n', 0)
    ctx.oblige('tie:real mux/demux/prioritized_mux netlists = Lean models', tb == 0, '%d/%d instances differ' % (tb, tn))
    if tb and not ctx.violations:
        ctx.extra['tie_only_examples'] = getattr(ctx, 'tie_only', [])[:3]
    ctx.oblige('property:every helper selects exactly the documented bits', not ctx.violations, '%d helper instances' % len(ctx.distinct))
    return conclude(ctx, rule='every helper x select widths 1..4 / non-power-of-two input counts / default presence / sparse index '
                    'sets / shift amounts wider than log2 width / slice bounds None,negative,open / patterns over {0,1,?,a,b,_,space} '
                    '/ nested struct+matrix schemas x exhaustive values (total width <= 10..15) or boundary+random; distinct = helper instances')
