"""C15 — all observation channels of a simulation agree; illegal inputs are refused.

For generated designs x input sequences x the three simulators: inspect() = last trace entry after
every step; step_multiple == stepping one at a time, and its report lists exactly the mismatching
expected outputs; trace length = number of steps; print_vcd / print_trace text is parsed back by an
independent decoder and must give exactly the traced values; rtl_assert raises on the first cycle its
wire is 0 and not before (Simulation, FastSimulation); every out-of-range input value is rejected with
PyrtlError by every simulator.  Proofs: Proofs/Props/C15.lean (input checks, regenerated from the
source, accept exactly [0, 2^w); digit encodings decode)."""
import io
import re
import pyrtl
from pyrtl import Input, Output, Register
from vlib import gen, simrun
from vlib.common import proof_gate, conclude
from vlib.serialize import Ser

SIMS = [pyrtl.Simulation, pyrtl.FastSimulation, pyrtl.CompiledSimulation]


def mk_sim(simcls, block, **kw):
    tracer = pyrtl.SimulationTrace(block=block)
    return simcls(tracer=tracer, block=block, **kw)


def parse_vcd(text):
    """-> ({name: width}, {name: [values per 10-unit timestamp]})"""
    widths, cur, series = {}, {}, {}
    t = None
    in_dump = False
    for line in text.split('\n'):
        line = line.strip()
        if not line:
            continue
        if line.startswith('$var'):
            parts = line.split()
            widths[parts[4]] = int(parts[2])
            continue
        if line.startswith('$dumpvars'):
            in_dump = True
            continue
        if line.startswith('$end'):
            in_dump = False
            continue
        if line.startswith('$'):
            continue
        if line.startswith('#'):
            if t is not None and t % 10 == 0:
                for n, v in cur.items():
                    series.setdefault(n, []).append(v)
            t = int(line[1:])
            continue
        m = re.match(r'^b([01]+) (.+)$', line)
        if not m:
            raise ValueError('unparsable VCD line %r' % line)
        if not in_dump:
            cur[m.group(2)] = int(m.group(1), 2)
    return widths, series


def parse_print_trace(text, base):
    rows = {}
    lines = [l for l in text.split('\n') if l.strip()]
    if lines and lines[0].strip().startswith('---'):
        lines = lines[1:]
    for l in lines:
        parts = l.split()
        rows[parts[0]] = [int(x, base) for x in parts[1:]]
    return rows


def check_design(ctx, d, steps, regmap, memmap, label):
    ser = Ser(d.block)
    replay = {'kind': 'design', 'label': label, 'block': ser.data, 'steps': steps}
    spec = ctx.driver.ask(simrun.lean_request(ser, steps, regmap, memmap, 0, model='spec'))
    if not spec.get('ok') or spec.get('romfault'):
        return True
    ok = True
    for simcls in SIMS:
        nm = simcls.__name__
        rp = dict(replay, simulator=nm)
        try:
            sim = mk_sim(simcls, d.block, register_value_map=dict(regmap), memory_value_map={m: dict(v) for m, v in memmap.items()})
            traced = list(sim.tracer.trace.keys())
            for k, s in enumerate(steps):
                sim.step(dict(s))
                for w in traced:
                    if sim.inspect(w) != sim.tracer.trace[w][-1]:
                        ctx.violation('inspect-vs-trace:' + nm, '%s after step %d: inspect(%s)=%d, last trace entry %d' % (
                            nm, k, w, sim.inspect(w), sim.tracer.trace[w][-1]), rp)
                        ok = False
                for w in traced:
                    if len(sim.tracer.trace[w]) != k + 1:
                        ctx.violation('trace-length:' + nm, '%s trace of %s has %d entries after %d steps' % (
                            nm, w, len(sim.tracer.trace[w]), k + 1), rp)
                        ok = False
            base_trace = {w: list(v) for w, v in sim.tracer.trace.items()}
            # step_multiple == one at a time; report = exactly the mismatches
            sim2 = mk_sim(simcls, d.block, register_value_map=dict(regmap), memory_value_map={m: dict(v) for m, v in memmap.items()})
            # the first `h` cycles one at a time, the rest through step_multiple (step numbers in its report are
            # relative to the call)
            h = ctx.rng.randrange(0, len(steps)) if ctx.rng.random() < 0.5 else 0
            for s in steps[:h]:
                sim2.step(dict(s))
            provided = {i.name: [s[i.name] for s in steps[h:]] for i in d.inputs}
            outs = [o.name for o in d.outputs if o.name in base_trace][:4]
            expected, wrong = {}, []
            for o in outs:
                col = []
                for c, v in enumerate(base_trace[o][h:]):
                    r = ctx.rng.random()
                    if r < 0.2:
                        col.append('?')
                    elif r < 0.4:
                        col.append(v + 1)
                        wrong.append((c, o, v + 1, v))
                    else:
                        col.append(v)
                expected[o] = col
            buf = io.StringIO()
            # nsteps: absent, equal to the number of values supplied (the documented "less than or equal"), or fewer
            avail = len(steps) - h
            ns = ctx.rng.choice([None, avail, avail, max(1, avail - 1)]) if (d.inputs and avail >= 1) else None
            ctx.count('step_multiple-nsteps', 'none' if ns is None else ('all' if ns == avail else 'fewer'))
            try:
                if ns is None:
                    sim2.step_multiple(provided, expected, file=buf)
                else:
                    sim2.step_multiple(provided, expected, nsteps=ns, file=buf)
            except pyrtl.PyrtlError as e:
                ctx.violation('step_multiple-raises:' + nm, '%s: step_multiple with %d values per input and nsteps=%r raised PyrtlError: %s' % (
                    nm, avail, ns, str(e)[:120]), dict(rp, nsteps=ns))
                ok = False
                continue
            taken = h + (avail if ns is None else ns)
            wrong = [w_ for w_ in wrong if w_[0] < taken - h]
            t2 = {w: list(v) for w, v in sim2.tracer.trace.items()}
            if t2 != {w: v[:taken] for w, v in base_trace.items()}:
                ctx.violation('step_multiple-vs-step:' + nm, '%s: step_multiple (nsteps=%r) trace differs from stepping one at a time' % (nm, ns),
                              dict(rp, nsteps=ns))
                ok = False
            rep = []
            for line in buf.getvalue().split('\n')[2:]:
                p = line.split()
                if len(p) == 4:
                    rep.append((int(p[0]), p[1], int(p[2]), int(p[3])))
            if sorted(rep) != sorted(wrong):
                ctx.violation('step_multiple-report:' + nm, '%s: report lists %r, the mismatching expected outputs are %r' % (
                    nm, sorted(rep)[:4], sorted(wrong)[:4]), rp)
                ok = False
            # a tracer given its wires explicitly -- as a list that names one wire twice, as a tuple, as a set: one trace entry
            # per wire and step, equal to the default tracer's
            ios_ = sorted(list(d.block.wirevector_subset((pyrtl.Input, pyrtl.Output))), key=lambda w: w.name)
            if ios_:
                shape_ = ctx.rng.choice(['list-with-repeat', 'tuple', 'set'])
                lst_ = ios_ + [ios_[-1], ios_[0]] if shape_ == 'list-with-repeat' else (tuple(ios_) if shape_ == 'tuple' else set(ios_))
                ctx.count('wires_to_track', shape_)
                try:
                    tr3 = pyrtl.SimulationTrace(wires_to_track=lst_, block=d.block)
                    sim3 = simcls(tracer=tr3, block=d.block, register_value_map=dict(regmap),
                                  memory_value_map={m: dict(v) for m, v in memmap.items()})
                    if simcls is pyrtl.CompiledSimulation and len(steps) > 1 and ctx.rng.random() < 0.7:
                        sim3.run([dict(s) for s in steps])              # all steps in one call
                        ctx.count('CompiledSimulation.run', 'batch')
                    else:
                        for s in steps:
                            sim3.step(dict(s))
                    t3 = {w: list(v) for w, v in tr3.trace.items()}
                    want3 = {w.name: base_trace[w.name] for w in ios_}
                    if t3 != want3:
                        bad_ = sorted(w for w in want3 if t3.get(w) != want3[w])[:1] or sorted(set(t3) ^ set(want3))[:1]
                        ctx.violation('explicit-tracer:' + nm, '%s with SimulationTrace(wires_to_track=<%s of the inputs and outputs>): trace of %s is %r, '
                                      'the default tracer gives %r' % (nm, shape_, bad_[0], t3.get(bad_[0]), want3.get(bad_[0])), dict(rp, wires_to_track=shape_))
                        ok = False
                except pyrtl.PyrtlError as e:
                    ctx.violation('explicit-tracer-raises:' + nm, '%s with SimulationTrace(wires_to_track=<%s>) raised PyrtlError: %s' % (nm, shape_, str(e)[:120]),
                                  dict(rp, wires_to_track=shape_))
                    ok = False
            # VCD and print_trace decode to the traced values
            buf = io.StringIO()
            sim.tracer.print_vcd(buf, include_clock=ctx.rng.random() < 0.5)
            widths, series = parse_vcd(buf.getvalue())
            san = sim.tracer.internal_names
            for w, vals in base_trace.items():
                got = series.get(san[w])
                if got != vals or widths.get(san[w]) != d.block.wirevector_by_name[w].bitwidth:
                    ctx.violation('vcd-decode:' + nm, '%s: VCD for %s decodes to %r (width %r), traced %r' % (
                        nm, w, None if got is None else got[:6], widths.get(san[w]), vals[:6]), rp)
                    ok = False
                    break
            for base in (2, 8, 10, 16):
                buf = io.StringIO()
                sim.tracer.print_trace(buf, base=base, compact=False)
                rows = parse_print_trace(buf.getvalue(), base)
                if rows != base_trace:
                    bad = [w for w in base_trace if rows.get(w) != base_trace[w]][:1]
                    ctx.violation('print_trace-decode:' + nm, '%s: print_trace(base=%d) decodes differently for %r' % (nm, base, bad), rp)
                    ok = False
                    break
            # compact form: the digits of every value in the requested base, nothing in between
            digits = '0123456789abcdef'

            def in_base(v, base):
                out = ''
                while True:
                    out = digits[v % base] + out
                    v //= base
                    if v == 0:
                        return out
            for base in (2, 8, 10, 16):
                buf = io.StringIO()
                sim.tracer.print_trace(buf, base=base, compact=True)
                lines = [l for l in buf.getvalue().split('\n') if l.strip()]
                width = max(len(w) for w in base_trace)
                want = sorted(w.rjust(width) + ' ' + ''.join(in_base(v, base) for v in vals) for w, vals in base_trace.items())
                if sorted(lines) != want:
                    bad = [l for l in lines if l not in want][:1]
                    ctx.violation('print_trace-compact:' + nm, '%s: print_trace(base=%d, compact=True) prints %r, the traced values give %r' % (
                        nm, base, bad, [x for x in want if x not in lines][:1]), rp)
                    ok = False
                    break
            ctx.count('channels-checked', nm)
        except Exception as e:  # noqa
            ctx.violation('channel-raises:' + nm, '%s raised %s while observing a legal simulation: %s' % (nm, type(e).__name__, str(e)[:160]), rp)
            ok = False
    return ok


def illegal_inputs(ctx, rng):
    """negative, 2^w, huge, on each simulator, for several widths"""
    n = 0
    for w in (1, 2, 7, 8, 63, 64, 65, 128):
        pyrtl.reset_working_block()
        i = Input(w, 'i')
        j = Input(3, 'j')
        o = Output(w, 'o')
        o <<= i
        o2 = Output(3, 'o2')
        o2 <<= j
        blk = pyrtl.working_block()
        bad = [-1, -(1 << w), 1 << w, (1 << w) + 5, 1 << (w + 64), -(1 << 70)]
        good = [0, 1, (1 << w) - 1, 1 << (w - 1)]
        for simcls in SIMS:
            for v in bad + good:
                # now and then with a non-zero default_value, the very value about to be offered included
                dv = 0 if rng.random() < 0.5 else (v if v > 0 and rng.random() < 0.6 else 5)
                sim = mk_sim(simcls, blk, default_value=dv)
                n += 1
                try:
                    sim.step({'i': v, 'j': 3})
                    res = 'accepted'
                    seen = sim.tracer.trace['o'][-1]
                except pyrtl.PyrtlError:
                    res = 'PyrtlError'
                    seen = None
                except Exception as e:  # noqa
                    res = 'other:' + type(e).__name__
                    seen = None
                want = 'accepted' if 0 <= v < (1 << w) else 'PyrtlError'
                if res != want:
                    ctx.violation('input-range:%s' % simcls.__name__,
                                  '%s.step with value %d for a %d-bit input: %s%s (must be %s)' % (
                                      simcls.__name__, v, w, res, '' if seen is None else ', simulated as %d' % seen, want),
                                  {'kind': 'illegal-input', 'simulator': simcls.__name__, 'width': w, 'value': v, 'default_value': dv})
                elif res == 'accepted' and seen != v:
                    ctx.violation('input-value:%s' % simcls.__name__, '%s reports %d for input value %d' % (simcls.__name__, seen, v),
                                  {'kind': 'illegal-input', 'simulator': simcls.__name__, 'width': w, 'value': v})
    return n


def refused_step_state(ctx, rng):
    """A refused step is not a step: after it the trace has the length it had, inspect() of every traced wire still
    equals its last trace entry, and legal steps that follow behave as if the refused one had never been issued.
    step_multiple applies its steps one at a time: the legal steps before an illegal one are simulated and traced."""
    n = 0
    for k in range(ctx.n(6, 40)):
        w = rng.choice([3, 4, 8, 64, 65])
        pyrtl.reset_working_block()
        a = Input(w, 'a')
        acc = Register(w, 'acc')
        cnt = Register(4, 'cnt', reset_value=rng.choice([None, 0, 3]))
        acc.next <<= acc + a
        cnt.next <<= cnt + 1
        o = Output(w, 'o')
        o <<= acc ^ a
        c_o = Output(4, 'c')
        c_o <<= cnt
        blk = pyrtl.working_block()
        good = [rng.getrandbits(w) for _ in range(rng.randint(2, 5))]
        bad = rng.choice([1 << w, (1 << w) + 7, -1, -(1 << w)])
        after = [rng.getrandbits(w) for _ in range(2)]
        mask = (1 << w) - 1
        # reference: the legal steps only
        accv, cv, want = 0, (cnt.reset_value or 0), {'a': [], 'o': [], 'c': [], 'acc': [], 'cnt': []}
        for v in good + after:
            want['a'].append(v); want['o'].append(accv ^ v); want['c'].append(cv); want['acc'].append(accv); want['cnt'].append(cv)
            accv, cv = (accv + v) & mask, (cv + 1) & 15
        for simcls in SIMS:
            names = ['a', 'o', 'c'] + (['acc', 'cnt'] if simcls is not pyrtl.CompiledSimulation else [])
            for mode in ('step', 'step_multiple'):
                replay = {'kind': 'refused-step', 'simulator': simcls.__name__, 'mode': mode, 'width': w, 'good': good, 'bad': bad, 'after': after}
                sim = mk_sim(simcls, blk)
                n += 1
                try:
                    if mode == 'step':
                        for v in good:
                            sim.step({'a': v})
                        sim.step({'a': bad})
                    else:
                        sim.step_multiple({'a': good + [bad] + after})
                    ctx.violation('input-range:%s' % simcls.__name__, '%s.%s accepted the value %d for a %d-bit input' % (
                        simcls.__name__, mode, bad, w), replay)
                    continue
                except pyrtl.PyrtlError:
                    pass
                except Exception as e:  # noqa
                    ctx.violation('input-range:%s' % simcls.__name__, '%s.%s raised %s (not PyrtlError) for the value %d on a %d-bit input' % (
                        simcls.__name__, mode, type(e).__name__, bad, w), replay)
                    continue
                tr = sim.tracer.trace
                lens = {nm: len(tr[nm]) for nm in names}
                if any(l != len(good) for l in lens.values()):
                    ctx.violation('trace-length-after-refusal:%s' % simcls.__name__, '%s.%s: %d legal steps then a refused one: trace lengths %r '
                                  '(must all be %d)' % (simcls.__name__, mode, len(good), lens, len(good)), replay)
                    continue
                bad_w = [nm for nm in names if list(tr[nm]) != want[nm][:len(good)]]
                if bad_w:
                    ctx.violation('trace-after-refusal:%s' % simcls.__name__, '%s.%s: trace of %s before the refused step is %r, stepping gives %r' % (
                        simcls.__name__, mode, bad_w[0], list(tr[bad_w[0]]), want[bad_w[0]][:len(good)]), replay)
                    continue
                stale = [(nm, sim.inspect(nm), tr[nm][-1]) for nm in names if sim.inspect(nm) != tr[nm][-1]]
                if stale:
                    ctx.violation('inspect-after-refusal:%s' % simcls.__name__, '%s.%s: after a refused step inspect(%s) = %d, the last trace entry is %d' % (
                        (simcls.__name__, mode) + stale[0]), replay)
                    continue
                try:
                    for v in after:
                        sim.step({'a': v})
                except Exception as e:  # noqa
                    ctx.violation('step-after-refusal:%s' % simcls.__name__, '%s: a legal step after a refused one raised %s: %s' % (
                        simcls.__name__, type(e).__name__, str(e)[:120]), replay)
                    continue
                bad_w = [nm for nm in names if list(tr[nm]) != want[nm]]
                if bad_w:
                    ctx.violation('step-after-refusal:%s' % simcls.__name__, '%s.%s: after a refused step the following legal steps give %s = %r, '
                                  'without the refused step %r' % (simcls.__name__, mode, bad_w[0], list(tr[bad_w[0]]), want[bad_w[0]]), replay)
    return n


def assertions(ctx, rng):
    """rtl_assert raises on the first cycle the wire is 0 and not before"""
    n = 0

    class Boom(Exception):
        pass
    for _ in range(ctx.n(20, 200)):
        pyrtl.reset_working_block()
        a = Input(3, 'a')
        r = Register(3, 'r')
        r.next <<= r + a
        cond = (r < rng.randint(2, 6)) | (a == 7)
        # the assertion's exception may be any exception instance but KeyError, PyRTL's own included
        exc_kind = rng.choice(['custom', 'custom', 'PyrtlError', 'ValueError'])
        exc = {'custom': Boom('assertion failed'), 'PyrtlError': pyrtl.PyrtlError('assertion failed'),
               'ValueError': ValueError('assertion failed')}[exc_kind]
        pyrtl.rtl_assert(cond, exc)
        o = Output(3, 'o')
        o <<= r
        blk = pyrtl.working_block()
        steps = [{'a': rng.randrange(8)} for _ in range(8)]
        ser = Ser(blk)
        aw = [w.name for w in blk.rtl_assert_dict][0]
        spec = ctx.driver.ask(simrun.lean_request(ser, steps, {}, {}, 0, model='spec', watch=[aw]))
        vals = [row[0] for row in spec['trace']]
        first = next((c for c, v in enumerate(vals) if v == 0), None)
        # in half of the runs the simulated block is not the working block while it is simulated
        foreign = rng.random() < 0.5
        ctx.count('rtl_assert-working-block', 'foreign' if foreign else 'same')
        other = pyrtl.Block()
        for simcls in SIMS[:2]:
            raised = None
            narrow = rng.random() < 0.4
            with pyrtl.set_working_block(other if foreign else blk, no_sanity_check=True):
                if narrow:
                    # a tracer that follows one wire only: the assertion (an Output the tracer does not list) still fires
                    sim = simcls(tracer=pyrtl.SimulationTrace(wires_to_track=[o], block=blk), block=blk)
                    ctx.count('rtl_assert-tracer', 'narrow')
                else:
                    sim = mk_sim(simcls, blk)
                for c, s in enumerate(steps):
                    try:
                        sim.step(dict(s))
                    except type(exc) as e_:
                        if e_ is exc:
                            raised = c
                            break
                        raise
            n += 1
            # the cycle in which the assertion fires is a cycle like any other for the observation channels
            if raised is not None:
                tr = sim.tracer.trace
                ln = set(len(v) for v in tr.values())
                if ln != {raised + 1}:
                    ctx.violation('trace-length-after-assert:' + simcls.__name__, '%s: after the assertion fired in cycle %d the trace holds %r entries per wire, '
                                  '%d steps were taken' % (simcls.__name__, raised, sorted(ln), raised + 1), {'kind': 'rtl_assert', 'steps': steps, 'block': ser.data})
                elif any(sim.inspect(w) != tr[w][-1] for w in ('a', 'o') if w in set(tr.keys())):
                    ctx.violation('inspect-vs-trace-after-assert:' + simcls.__name__, '%s: after the assertion fired inspect() differs from the last trace entry' % simcls.__name__,
                                  {'kind': 'rtl_assert', 'steps': steps, 'block': ser.data})
            if raised != first:
                ctx.violation('rtl_assert:' + simcls.__name__, '%s raised the assertion (a %s) at cycle %r; the asserted wire is first 0 at cycle %r' % (
                    simcls.__name__, exc_kind, raised, first), {'kind': 'rtl_assert', 'steps': steps, 'block': ser.data})
    return n


def main(ctx):
    proofs_ok = proof_gate(ctx, gen_modules=['InputCheck', 'Conv'])
    rng = ctx.rng
    n = ctx.n(60, 1500)
    agree = 0
    for k in ctx.loop(n):
        d = gen.rand_design(rng, profile=('small', 'med', 'limb')[k % 3], nops=rng.randint(3, 10), raw=False,
                            name_style=('plain', 'verilog-nospace')[(k // 3) % 2])
        steps = gen.rand_stimulus(rng, d, rng.choice([3, 5, 8]))
        regmap, memmap, _ = gen.rand_init(rng, d, with_default=False)
        ok = check_design(ctx, d, steps, regmap, memmap, 'obs#%d' % k)
        agree += ok
        desc = d.describe()
        ctx.case((desc['nets'], tuple(desc['ops']), len(steps)), nontrivial=desc['nets'] >= 3)
        ctx.sample({'design': desc, 'cycles': len(steps)})
        if len(ctx.violations) >= 6:
            break
    ni = illegal_inputs(ctx, rng)
    ni += refused_step_state(ctx, rng)
    na = assertions(ctx, rng)
    ctx.evaluations += ni + na
    ctx.oblige('property:channels agree, illegal inputs refused, assertions raised at the first 0', not ctx.violations,
               '%d/%d designs, %d illegal/legal input probes, %d assertion runs' % (agree, n, ni, na))
    return conclude(ctx, rule='random designs x input sequences x {Simulation, FastSimulation, CompiledSimulation} x {inspect, trace, '
                    'step vs step_multiple, expected-output report with ?/wrong/right entries, VCD with/without clock, print_trace '
                    'bases 2/8/10/16}; input values -1, -2^w, 2^w, 2^w+5, 2^(w+64) and legal boundaries at widths 1..128; '
                    'rtl_assert on a register-dependent condition; distinct = (net count, op set, cycles)')
