"""C16 — value conversion helpers are range-exact and mutually inverse.

Tie A: `_convert_int`, `_convert_bool`, `val_to_signed_integer`, `twos_comp_repr`,
`rev_twos_comp_repr` are symbolically executed into `Gen.Conv` on every run and the theorems of
Proofs/Props/C16.lean are re-checked against them.  Correspondence: the real functions vs the
translated ones (exhaustive for bitwidth <= 8, boundary values to 130 bits).  Oracle: the property
itself in exact integer arithmetic (accept iff representable, two's complement, minimal width,
agreement of Const / int / verilog string forms, inverses, format round trips, bit patterns)."""
import io
import contextlib
import pyrtl
from pyrtl import helperfuncs as hf
from pyrtl.rtllib import libutils
from vlib import simrun
from vlib.common import proof_gate, conclude
from vlib.serialize import Ser

NONE = -1000000007


def call(fn, *a, **k):
    try:
        return ('ok', fn(*a, **k))
    except pyrtl.PyrtlError:
        return ('PyrtlError', None)
    except Exception as e:  # noqa
        return ('other:' + type(e).__name__, None)


def representable(v, bw, signed):
    if signed or v < 0:
        return -(1 << (bw - 1)) <= v < (1 << (bw - 1)) if (signed or v < 0) and not (v >= 0 and not signed) else 0 <= v < (1 << bw)
    return 0 <= v < (1 << bw)


def min_width(v, signed):
    if v >= 0:
        w = max(1, v.bit_length())
        return w + 1 if signed and v != 0 else w
    return 1 if v == -1 else (~v).bit_length() + 1


def main(ctx):
    proofs_ok = proof_gate(ctx, gen_modules=['Conv'])
    rng = ctx.rng
    maxbw = ctx.n(8, 10)
    vals = list(range(-300, 301))
    for k in list(range(1, 131)):
        vals += [1 << k, (1 << k) - 1, -(1 << (k - 1)), -(1 << (k - 1)) - 1, (1 << k) + 1]
    vals = sorted(set(vals))
    bws = [None] + list(range(1, maxbw + 1)) + [16, 31, 32, 33, 63, 64, 65, 127, 128, 129, 130]
    tie_rows = {'convert_int': [], 'val_to_signed': [], 'twos_comp_repr': [], 'rev_twos_comp_repr': [], 'convert_bool': []}
    tie_real = {k: [] for k in tie_rows}

    def viol(key, what, obj):
        ctx.violation(key, what, dict(obj, kind='conversion'))

    # ---- infer_val_and_bitwidth / Const on ints
    for v in vals:
        for bw in bws:
            if bw is not None and bw > 12 and abs(v) < 1000 and rng.random() < 0.7:
                continue
            for signed in (False, True):
                st, r = call(hf.infer_val_and_bitwidth, v, bw, signed)
                ctx.evaluations += 1
                # property: accept exactly when representable
                if v >= 0:
                    need = min_width(v, signed)
                    should = bw is None or bw >= need
                    want_bw = need if bw is None else bw
                    want_val = v
                else:
                    if bw is None:
                        should = signed
                        want_bw = min_width(v, True)
                    else:
                        should = -(1 << (bw - 1)) <= v
                        want_bw = bw
                    want_val = v & ((1 << want_bw) - 1) if should else None
                if (st == 'ok') != should:
                    viol('infer-accepts', 'infer_val_and_bitwidth(%d, bitwidth=%r, signed=%r) %s but the value is %srepresentable' % (
                        v, bw, signed, 'is accepted' if st == 'ok' else 'raises ' + st, '' if should else 'not '),
                        {'fn': 'infer_val_and_bitwidth', 'val': v, 'bitwidth': bw, 'signed': signed})
                elif st == 'ok' and (r.value, r.bitwidth) != (want_val, want_bw):
                    viol('infer-value', 'infer_val_and_bitwidth(%d, bitwidth=%r, signed=%r) = %r, expected (%d, %d)' % (
                        v, bw, signed, tuple(r), want_val, want_bw), {'fn': 'infer_val_and_bitwidth', 'val': v, 'bitwidth': bw, 'signed': signed})
                if st == 'ok' and not (0 <= r.value < (1 << r.bitwidth)):
                    viol('infer-range', 'infer_val_and_bitwidth(%d, %r, %r) value out of range' % (v, bw, signed), {})
                tie_rows['convert_int'].append([v, NONE if bw is None else bw, 1 if signed else 0])
                tie_real['convert_int'].append(None if st != 'ok' else [r.value, r.bitwidth])
                # Const agrees with infer
                pyrtl.reset_working_block()
                st2, c = call(pyrtl.Const, v, bitwidth=bw, signed=signed)
                if (st2 == 'ok') != (st == 'ok') or (st == 'ok' and (c.val, c.bitwidth) != (r.value, r.bitwidth)):
                    viol('const-vs-infer', 'Const(%d, bitwidth=%r, signed=%r) disagrees with infer_val_and_bitwidth' % (v, bw, signed),
                         {'val': v, 'bitwidth': bw, 'signed': signed})
                # val_to_signed_integer inverts the signed encoding
                if st == 'ok' and (signed or v < 0):
                    stb, back = call(hf.val_to_signed_integer, r.value, r.bitwidth)
                    if stb != 'ok' or back != v:
                        viol('signed-inverse', 'val_to_signed_integer(%d, %d) = %r, encoded from %d' % (r.value, r.bitwidth, back, v),
                             {'val': v, 'bitwidth': bw})
        ctx.distinct.add(('int', v))
    # ---- verilog-style strings agree with the int form (on the unsigned domain and negatives)
    for bw in range(1, maxbw + 1):
        for v in range(-(1 << bw), (1 << bw) + 2):
            for fmt in ("%d'd%d", "%d'b%s", "%d'h%x", "%d'o%o", "%d'%d"):
                if v < 0:
                    body = fmt % ((bw, bin(-v)[2:]) if fmt.endswith('%s') else (bw, -v))
                    s = '-' + body
                else:
                    s = fmt % ((bw, bin(v)[2:]) if fmt.endswith('%s') else (bw, v))
                st, r = call(hf.infer_val_and_bitwidth, s)
                ctx.evaluations += 1
                if v >= 0:
                    should = v < (1 << bw)
                    want = v
                else:
                    should = -v < (1 << (bw - 1)) or False     # the string form requires room for the sign
                    want = (1 << bw) + v
                    if -v == (1 << (bw - 1)):
                        # known boundary: "-4'd8" is rejected although infer_val_and_bitwidth(-8, 4) is accepted
                        ctx.count('string-negative-boundary', st)
                        continue
                if (st == 'ok') != should or (st == 'ok' and (r.value, r.bitwidth) != (want, bw)):
                    viol('verilog-string', 'infer_val_and_bitwidth(%r) -> %s %r; the int form gives %r' % (
                        s, st, None if r is None else tuple(r), (want, bw) if should else 'reject'), {'string': s})
                    break
        ctx.distinct.add(('str', bw))
    # underscores are digit separators anywhere after the first digit (doubled and trailing ones included)
    for _ in range(ctx.n(150, 1500)):
        bw = rng.randint(1, 16)
        v = rng.getrandbits(bw)
        base, digs = rng.choice([('b', bin(v)[2:]), ('h', '%x' % v), ('d', str(v)), ('o', '%o' % v), ('H', '%X' % v), ('x', '%x' % v)])
        body = digs[0]
        for ch in digs[1:]:
            body += rng.choice(['', '', '_', '__']) + ch
        body += rng.choice(['', '', '_', '__'])
        s_ = "%d'%s%s%s" % (bw, base, rng.choice(['', ' ']), body)
        st, r = call(hf.infer_val_and_bitwidth, s_)
        ctx.evaluations += 1
        if st != 'ok' or (r.value, r.bitwidth) != (v, bw):
            viol('verilog-string-separators', 'infer_val_and_bitwidth(%r) -> %s %r; the digits denote %r' % (
                s_, st, None if r is None else tuple(r), (v, bw)), {'string': s_})
            break
    # a width given twice -- in the string and as the bitwidth argument: accepted exactly when the two agree, at any width
    for _ in range(ctx.n(120, 1200)):
        bw = rng.choice([rng.randint(1, 16), rng.randint(17, 300), rng.randint(257, 1030)])
        v = rng.getrandbits(bw)
        s_ = "%d'%s" % (bw, rng.choice([('d%d' % v), ('h%x' % v), ('b' + bin(v)[2:])]))
        passed = bw if rng.random() < 0.7 else rng.choice([bw + 1, max(1, bw - 1) if bw > 1 else 2, 2 * bw])
        ctx.evaluations += 1
        for what, fn in (('infer_val_and_bitwidth', lambda: tuple(hf.infer_val_and_bitwidth(s_, bitwidth=int(str(passed))))),
                         ('Const', lambda: (lambda c_: (c_.val, c_.bitwidth))(pyrtl.Const(s_, bitwidth=int(str(passed)))))):
            st, r = call(fn)
            if (passed == bw) != (st == 'ok') or (st == 'ok' and r != (v, bw)):
                viol('verilog-string-with-bitwidth', '%s(%r, bitwidth=%d) -> %s %r; the widths %s, the string denotes %r' % (
                    what, s_[:40], passed, st, r, 'agree' if passed == bw else 'disagree', (v, bw)), {'string': s_, 'bitwidth': passed})
                break
        ctx.count('verilog-string-with-bitwidth', 'agree' if passed == bw else 'disagree')
    for s, want in (("8'B 0110_1100", (108, 8)), ("5'b10", (2, 5)), ("12'hFf", (255, 12)), ("4's3", None), ("3", None), ("4'", None)):
        st, r = call(hf.infer_val_and_bitwidth, s)
        if (want is None) != (st != 'ok') or (want and tuple(r) != want):
            viol('verilog-string', 'infer_val_and_bitwidth(%r) -> %s %r, expected %r' % (s, st, r, want), {'string': s})
    # every spelling [-]w'<base><digits> for small widths: the digits denote the magnitude; a leading minus its two's
    # complement in w bits (minus zero is zero).  Negative magnitudes >= 2^(w-1) are not compared (see DESIGN 10.5).
    done_strings = 0
    for w_ in range(1, ctx.n(5, 7)):
        for base, fmt_ in (('b', 'b'), ('o', 'o'), ('d', 'd'), ('h', 'x'), ('x', 'x'), ('', 'd')):
            for m_ in range(0, (1 << w_) + 2):
                for neg in ('', '-'):
                    if neg and m_ >= (1 << (w_ - 1)) and m_ != 0:
                        continue
                    s_ = "%s%d'%s%s" % (neg, w_, base, format(m_, fmt_))
                    want = None if m_ >> w_ else (((1 << w_) - m_) % (1 << w_) if neg else m_, w_)
                    st, r = call(hf.infer_val_and_bitwidth, s_)
                    ctx.evaluations += 1
                    done_strings += 1
                    if (want is None) != (st != 'ok') or (want is not None and tuple(r) != want):
                        viol('verilog-string-grid', 'infer_val_and_bitwidth(%r) -> %s %r, the string denotes %r' % (
                            s_, st, None if r is None else tuple(r), want), {'string': s_})
                        break
                    if want is not None:
                        stc, c_ = call(lambda x: pyrtl.Const(x), s_)
                        if stc != 'ok' or (c_.val, c_.bitwidth) != want:
                            viol('verilog-string-grid:Const', 'Const(%r) -> %s %r, the string denotes %r' % (
                                s_, stc, None if c_ is None else (c_.val, c_.bitwidth), want), {'string': s_})
                            break
    ctx.count('verilog-strings', done_strings)
    # enum format: names <-> values; an alias reads as its value, a value prints as the canonical (first) name
    import enum
    for _e in range(ctx.n(3, 20)):
        vals_ = rng.sample(range(16), rng.randint(2, 6))
        members = [('M%d' % i, v) for i, v in enumerate(vals_)]
        aliases = [('A%d' % i, v) for i, v in enumerate(vals_) if rng.random() < 0.5]
        allm = members + aliases
        if rng.random() < 0.5:
            # aliases may be declared anywhere after their canonical member
            for al in aliases:
                allm.remove(al)
                pos = [i for i, (n_, v) in enumerate(allm) if v == al[1]][0]
                allm.insert(rng.randint(pos + 1, len(allm)), al)
        Ctl = enum.Enum('Ctl', allm)
        Other = enum.Enum('Other', [('X', 1), ('M0', 14)])
        fmt_e = 'e4/Ctl'

        def enum_set():
            # `enum_set` is "an iterable of enums": a list, a tuple, a one-shot iterator, a generator, the keys of a dict
            shape = rng.choice(['list', 'tuple', 'iterator', 'generator', 'dict-keys'])
            ctx.count('enum_set-shape', shape)
            both = [Other, Ctl] if rng.random() < 0.7 else [Ctl, Other]
            return {'list': lambda: list(both), 'tuple': lambda: tuple(both), 'iterator': lambda: iter(both),
                    'generator': lambda: (e_ for e_ in both), 'dict-keys': lambda: {e_: 1 for e_ in both}.keys()}[shape]()
        for nm_, v in allm:
            st, got = call(hf.formatted_str_to_val, nm_, fmt_e, enum_set())
            ctx.evaluations += 1
            if st != 'ok' or got != v:
                viol('format-enum:str_to_val', 'formatted_str_to_val(%r, %r) = %r (%s), the member has value %d' % (nm_, fmt_e, got, st, v),
                     {'members': allm})
                break
            canon = [n_ for n_, v2 in allm if v2 == v][0]
            st, back = call(hf.val_to_formatted_str, v, fmt_e, enum_set())
            if st != 'ok' or back != canon:
                viol('format-enum:val_to_str', 'val_to_formatted_str(%d, %r) = %r (%s) with members %r; the name of that value is %r' % (
                    v, fmt_e, back, st, allm, canon), {'members': allm})
                break
    for b in (True, False):
        for bw in (None, 1, 2):
            for signed in (False, True):
                st, r = call(hf.infer_val_and_bitwidth, b, bw, signed)
                should = (not signed) and bw in (None, 1)
                if (st == 'ok') != should or (st == 'ok' and tuple(r) != (int(b), 1)):
                    viol('bool', 'infer_val_and_bitwidth(%r, %r, %r) -> %s %r' % (b, bw, signed, st, r), {})
                tie_rows['convert_bool'].append([int(b), NONE if bw is None else bw, 1 if signed else 0])
                tie_real['convert_bool'].append(None if st != 'ok' else [r.value, r.bitwidth])
    # ---- val_to_signed_integer, format round trips
    for bw in list(range(1, maxbw + 1)) + [16, 63, 64, 65, 130]:
        vs = range(1 << bw) if bw <= maxbw else [0, 1, (1 << bw) - 1, 1 << (bw - 1), (1 << (bw - 1)) - 1] + [rng.getrandbits(bw) for _ in range(20)]
        for v in vs:
            stv, sv = call(hf.val_to_signed_integer, v, bw)
            want = v - (1 << bw) if v >> (bw - 1) else v
            ctx.evaluations += 1
            if stv != 'ok' or sv != want:
                viol('val_to_signed', 'val_to_signed_integer(%d, %d) = %r (%s), expected %d' % (v, bw, sv, stv, want), {'val': v, 'bitwidth': bw})
            tie_rows['val_to_signed'].append([v, bw, 0])
            tie_real['val_to_signed'].append(sv)
            for t in 'sxbu':
                f = '%s%d' % (t, bw)
                st, sdat = call(hf.val_to_formatted_str, v, f)
                st2, back = call(hf.formatted_str_to_val, sdat, f) if st == 'ok' else ('skip', None)
                if st != 'ok' or st2 != 'ok' or back != v:
                    viol('format-roundtrip:' + t, 'formatted_str_to_val(val_to_formatted_str(%d, %r)) = %r (%s/%s) via %r' % (
                        v, f, back, st, st2, sdat), {'val': v, 'format': f})
                    break
                # and the other direction on the canonical string
                want_s = {'s': str(want), 'x': '%x' % v, 'b': bin(v)[2:], 'u': str(v)}[t]
                if sdat != want_s:
                    viol('format-text:' + t, 'val_to_formatted_str(%d, %r) = %r, expected %r' % (v, f, sdat, want_s), {'val': v, 'format': f})
                    break
        ctx.distinct.add(('fmt', bw))
    # ---- libutils two's complement helpers: mutual inverses on the accepted domain
    for bw in range(1, maxbw + 1):
        for v in range(-(1 << bw) - 2, (1 << bw) + 3):
            st, r = call(libutils.twos_comp_repr, v, bw)
            ctx.evaluations += 1
            should = bw >= abs(v).bit_length() + 1
            tie_rows['twos_comp_repr'].append([v, bw, 0])
            tie_real['twos_comp_repr'].append(r if st == 'ok' else None)
            if (st == 'ok') != should:
                viol('twos_comp-domain', 'twos_comp_repr(%d, %d): %s, documented domain says %s' % (v, bw, st, should), {'val': v, 'bitwidth': bw})
                continue
            if st == 'ok':
                if r != v & ((1 << bw) - 1):
                    viol('twos_comp-value', 'twos_comp_repr(%d, %d) = %d' % (v, bw, r), {'val': v, 'bitwidth': bw})
                st2, back = call(libutils.rev_twos_comp_repr, r, bw)
                if st2 != 'ok' or back != v:
                    viol('twos_comp-inverse', 'rev_twos_comp_repr(twos_comp_repr(%d, %d)) = %r (%s)' % (v, bw, back, st2), {'val': v, 'bitwidth': bw})
        for u in range(0, (1 << bw) + 2):
            st, r = call(libutils.rev_twos_comp_repr, u, bw)
            tie_rows['rev_twos_comp_repr'].append([u, bw, 0])
            tie_real['rev_twos_comp_repr'].append(r if st == 'ok' else None)
            if st == 'ok':
                st2, back = call(libutils.twos_comp_repr, r, bw)
                if st2 != 'ok' or back != u:
                    viol('twos_comp-inverse2', 'twos_comp_repr(rev_twos_comp_repr(%d, %d)=%d) = %r (%s)' % (u, bw, r, back, st2), {'val': u, 'bitwidth': bw})
        ctx.distinct.add(('twos', bw))
    # ---- bitpattern_to_val produces a value match_bitpattern matches and decodes to the same fields
    pats = ['a', 'ab', 'aab', '1a0', 'a_1b b0', 'aabb01', 'a1a', 'abc', '0a1b_0', 'aaab1b0b', 'ba ab 10']
    letters = 'abc'
    for _ in range(ctx.n(40, 300)):
        n = rng.randint(1, 10)
        pats.append(''.join(rng.choice('01ab_ c'[:rng.randint(3, 7)]) for _ in range(n)))
    for pat in pats:
        clean = pat.replace('_', '').replace(' ', '')
        if not clean or '?' in clean:
            continue
        fields = []
        for ch in clean:
            if ch in letters and ch not in fields:
                fields.append(ch)
        widths = {f: clean.count(f) for f in fields}
        vals_ = {f: rng.getrandbits(widths[f]) for f in fields}
        st, v = call(hf.bitpattern_to_val, clean, *[vals_[f] for f in fields])
        ctx.evaluations += 1
        # the named forms: fields by letter, and through a field_map whose names may be other letters of the pattern
        if st == 'ok' and fields:
            st_n, v_n = call(hf.bitpattern_to_val, clean, **{f: vals_[f] for f in fields})
            perm = list(fields)
            rng.shuffle(perm)
            names = dict(zip(fields, perm if rng.random() < 0.6 else ['n_' + f for f in fields]))
            st_m, v_m = call(hf.bitpattern_to_val, clean, field_map=dict(names), **{names[f]: vals_[f] for f in fields})
            if (st_n, v_n) != ('ok', v) or (st_m, v_m) != ('ok', v):
                viol('bitpattern_to_val-named', 'bitpattern_to_val(%r): positional %r, by letter %r (%s), through field_map %r: %r (%s)' % (
                    clean, v, v_n, st_n, names, v_m, st_m), {'pattern': pat, 'fields': vals_, 'field_map': names})
        if st != 'ok':
            viol('bitpattern_to_val', 'bitpattern_to_val(%r, %r) raises %s' % (pat, vals_, st), {'pattern': pat})
            continue
        # a field given more bits than it has is refused -- whether the value is too large or too negative; a negative
        # value that fits is stored in two's complement
        if fields:
            f_ = rng.choice(fields)
            n_ = widths[f_]
            for kind_, fv_ in (('too large', (1 << n_) + rng.getrandbits(3)), ('too negative', -(1 << n_) - 1 - rng.getrandbits(3)),
                               ('negative, fits', -rng.randint(1, 1 << (n_ - 1)))):
                args_ = dict(vals_)
                args_[f_] = fv_
                st_x, v_x = call(hf.bitpattern_to_val, clean, *[args_[f] for f in fields])
                ctx.evaluations += 1
                if kind_ == 'negative, fits':
                    want_x = 0
                    left_ = {f: args_[f] % (1 << widths[f]) for f in fields}
                    for pos_, ch in enumerate(clean[::-1]):
                        if ch == '1':
                            want_x |= 1 << pos_
                        elif ch in left_:
                            want_x |= (left_[ch] & 1) << pos_
                            left_[ch] >>= 1
                    good_ = (st_x, v_x) == ('ok', want_x)
                else:
                    good_ = st_x == 'PyrtlError'
                if not good_:
                    viol('bitpattern_to_val-field-range', 'bitpattern_to_val(%r) with %d-bit field %s = %d (%s): %s %r' % (
                        clean, n_, f_, fv_, kind_, st_x, v_x), {'pattern': pat, 'fields': args_})
                    break
        pyrtl.reset_working_block()
        w = pyrtl.Input(len(clean), 'w')
        m, fl = pyrtl.match_bitpattern(w, pat)
        mo = pyrtl.Output(1, 'm')
        mo <<= m
        fos = []
        for k, f in enumerate(fl):
            o = pyrtl.Output(len(f), 'f%d' % k)
            o <<= f
            fos.append(o)
        ser = Ser(pyrtl.working_block())
        resp = ctx.driver.ask(simrun.lean_request(ser, [{'w': v}], {}, {}, 0, model='spec', watch=['m'] + [o.name for o in fos]))
        row = resp['trace'][0]
        if row[0] != 1 or row[1:] != [vals_[f] for f in fields] or [len(o) for o in fos] != [widths[f] for f in fields]:
            viol('bitpattern-roundtrip', 'match_bitpattern(%r) on bitpattern_to_val(%r)=%d: match=%d fields=%r' % (
                pat, vals_, v, row[0], row[1:]), {'pattern': pat, 'fields': vals_})
        ctx.distinct.add(('pat', clean))
    # ---- tie: the real functions vs the translated Lean definitions
    tie_bad = tie_n = 0
    for fn in tie_rows:
        rows, real = tie_rows[fn], tie_real[fn]
        for lo in range(0, len(rows), 20000):
            m = ctx.driver.ask({'cmd': 'conv', 'fn': fn, 'cases': rows[lo:lo + 20000]})
            if not m.get('ok'):
                raise RuntimeError('conv model: %s' % m)
            for row, a, b in zip(rows[lo:lo + 20000], m['vals'], real[lo:lo + 20000]):
                tie_n += 1
                if a != b and not (fn == 'convert_int' and row[1] != NONE and row[1] < 1):
                    tie_bad += 1
                    if tie_bad <= 3:
                        ctx.tie_only = getattr(ctx, 'tie_only', []) + [{'fn': fn, 'args': row, 'lean': a, 'real': b}]
    ctx.oblige('tie:real conversion helpers = translated Lean definitions', tie_bad == 0, '%d/%d argument tuples differ' % (tie_bad, tie_n))
    if tie_bad and not ctx.violations:
        ctx.extra['tie_only_examples'] = getattr(ctx, 'tie_only', [])
    ctx.oblige('property:range-exact and mutually inverse', not ctx.violations, '%d evaluations' % ctx.evaluations)
    ctx.sample({'fn': 'infer_val_and_bitwidth', 'values': len(vals), 'bitwidths': len(bws)})
    ctx.sample({'fn': 'twos_comp_repr/rev', 'bitwidths': maxbw, 'patterns': len(pats)})
    return conclude(ctx, rule='all integers in [-300,300] + boundary values 2^k, 2^k-1, -2^(k-1) (k to 130) x bitwidth None/1..%d/'
                    'limb boundaries x signed; every value of every bitwidth <= %d for signed decoding, the four formats and the '
                    'libutils helpers; verilog strings in 5 notations; random bit patterns up to length 10; distinct = (kind, value or width)' % (maxbw, maxbw))
