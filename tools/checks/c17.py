"""C17 — timing, path and fan-out analyses equal their graph-theoretic definitions.

Generated designs (reconvergent fan-out, registers, memories with write->read paths, equal-delay ties)
under custom integer gate_delay_funcs and the default ones: the real TimingAnalysis / critical_path /
max_freq / paths / distance / fanout are compared with an independent brute-force enumeration of the
netlist graph (oracle) and with the Lean model `Analysis.*` the theorems are about (tie)."""
import contextlib
import io
import pyrtl
from pyrtl import Input, Output, Const, Register, analysis
from vlib import gen
from vlib.common import proof_gate, conclude
from vlib.serialize import Ser


def int_delays(rng):
    ops = '~&|^nw+-*<>=xcs'
    if rng.random() < 0.3:
        # exact integer delays that are huge and nearly tied: arrival times differing by 1 part in 10**12 are different
        B = 10 ** 12
        tab = {op: rng.choice([0, B, B, B + 1, 2 * B - 1, 2 * B, 3 * B + 1]) for op in ops}
    else:
        tab = {op: rng.choice([0, 1, 1, 2, 3, 5]) for op in ops}
    # width-dependent: the function receives the bitwidth of the gate's first argument
    funcs = {op: (lambda width, d=d: d + (width % 3 if d else 0)) for op, d in tab.items()}
    # any negative delay marks the end of a path (documented), not only -1
    neg = rng.choice([-1, -1, -5, -0.5])
    funcs['r'] = lambda width, neg=neg: neg
    funcs['@'] = lambda width, neg=neg: neg
    # the delay of a read port is a function of the memory (data width, number of read ports), not of the address width
    md = rng.choice([0, 2, 4])
    funcs['m'] = lambda mem, md=md: mem_delay(md, mem)
    tab['m'] = md
    return funcs, tab


def mem_delay(md, mem):
    return md + (mem.bitwidth % 4 + len(mem.readport_nets) if md else 0)


def longest_paths(block, tab):
    """wire -> max over register-free paths from Inputs/Consts/Registers of summed delays, by explicit
    path enumeration (exponential, small designs only); None if the enumeration is too large"""
    src, dst = block.net_connections()
    best = {}
    budget = [200000]

    def delay(n):
        if n.op == 'm':
            return mem_delay(tab['m'], n.op_param[1])
        return tab[n.op] + (len(n.args[0]) % 3 if tab[n.op] else 0)

    def walk(w, acc):
        budget[0] -= 1
        if budget[0] < 0:
            raise OverflowError
        if acc > best.get(w, -1):
            best[w] = acc
        for n in dst.get(w, []):
            if n.op in 'r@':
                continue
            for d in n.dests:
                walk(d, acc + delay(n))
    try:
        for w in block.wirevector_subset((Input, Const, Register)):
            walk(w, 0)
    except OverflowError:
        return None
    return best


def all_paths(block, s, d):
    """every wire-simple path of nets from wire s to wire d (a '@' net continues at each read port of
    its memory), found by an independent DFS over wires"""
    src, dst = block.net_connections()
    out = []
    budget = [100000]
    # the read ports of a memory are the 'm' nets of the block that name it (not what the MemBlock recorded)
    readports = {}
    for rn_ in sorted(block.logic_subset('m'), key=str):
        readports.setdefault(id(rn_.op_param[1]), []).append(rn_)

    def walk(w, path, seen_wires):
        budget[0] -= 1
        if budget[0] < 0:
            raise OverflowError
        if w is d and path:
            out.append(list(path))
        for n in dst.get(w, []):
            if any(n is p for p in path):
                continue
            if n.op == '@':
                for rn in readports.get(id(n.op_param[1]), []):
                    nw = rn.dests[0]
                    if any(rn is p for p in path):
                        continue
                    if nw is s and s is not d:
                        continue
                    walk(nw, path + [n, rn], seen_wires)
            else:
                nw = n.dests[0]
                if nw is s and s is not d:
                    continue
                walk(nw, path + [n], seen_wires)
    try:
        walk(s, [], set())
    except OverflowError:
        return None
    return out


def path_key(p):
    return tuple(id(n) for n in p)


def check_design(ctx, d, rng, label):
    blk = d.block
    ser = Ser(blk)
    replay = {'kind': 'design', 'label': label, 'block': ser.data}
    funcs, tab = int_delays(rng)
    replay['delays'] = tab
    # the default delay table before any custom table has been used on this block
    with contextlib.redirect_stdout(io.StringIO()):
        ta_def0 = analysis.TimingAnalysis(block=blk)
    def0 = {w.name: t for w, t in ta_def0.timing_map.items()}
    with contextlib.redirect_stdout(io.StringIO()):
        ta = analysis.TimingAnalysis(block=blk, gate_delay_funcs=funcs)
    want = longest_paths(blk, tab)
    ok = True
    if want is not None:
        for w, t in ta.timing_map.items():
            if want.get(w) != t:
                ctx.violation('timing-map', 'timing of wire %s is %r; the longest register-free path from a source sums to %r' % (
                    w.name, t, want.get(w)), dict(replay, wire=w.name))
                ok = False
                break
        missing = [w for w in want if w not in ta.timing_map]
        if missing:
            ctx.violation('timing-map-missing', 'wire %s reachable from a source has no timing' % missing[0].name, replay)
            ok = False
        ml = ta.max_length()
        if ml != max(want.values()):
            ctx.violation('max-length', 'max_length() = %r, the largest wire timing is %r' % (ml, max(want.values())), replay)
            ok = False
        # critical paths: each sums to max_length and is a connected chain ending at a max wire
        with contextlib.redirect_stdout(io.StringIO()):
            cps = ta.critical_path(print_cp=False, cp_limit=200)
        for first, path in cps:
            total = sum((mem_delay(tab['m'], n.op_param[1]) if n.op == 'm' else tab[n.op] + (len(n.args[0]) % 3 if tab[n.op] else 0))
                        for n in path)
            chain_ok = all(any(path[k].dests[0] is a for a in path[k + 1].args) for k in range(len(path) - 1))
            start_ok = (not path) or any(first is a for a in path[0].args)
            if total != ml or not chain_ok or not start_ok or not isinstance(first, (Input, Const, Register)):
                ctx.violation('critical-path', 'critical path from %s sums to %r (max_length %r), chain_ok=%s' % (
                    first.name, total, ml, chain_ok and start_ok), replay)
                ok = False
                break
        if ml > 0 and not cps:
            ctx.violation('critical-path-none', 'no critical path returned although max_length = %r' % ml, replay)
            ok = False
        # max_freq is its documented function of max_length
        zero_ff = (rng.choice([130, 65, 45]), rng.choice([0, 0.0]))
        # (ideal registers are only asked about when there is logic: a clock period of 0 has no frequency)
        for tech, ff in ((130, None), (65, None), (45, 100.0)) + ((zero_ff,) if ml > 0 else ()):
            got = ta.max_freq(tech_in_nm=tech, ffoverhead=ff)
            sf = 130.0 / tech
            period = sf * (ml + 189 + 194) if ff is None else sf * ml + ff
            if abs(got - 1e6 / period) > 1e-6 * abs(got):
                ctx.violation('max-freq', 'max_freq(%r, %r) = %r, formula gives %r' % (tech, ff, got, 1e6 / period), replay)
                ok = False
        # the Lean model of the timing map (tie)
        order = [ser.net_index(n) for n in blk]
        m = ctx.driver.ask({'cmd': 'timing', 'block': ser.data, 'order': order,
                            'delays': {k: v for k, v in tab.items()}, 'wmod': 3,
                            'mdelays': {str(n.op_param[1].id): mem_delay(tab['m'], n.op_param[1]) for n in blk.logic_subset('m')}})
        if m.get('ok'):
            name2id = {w.name: i for i, w in enumerate(ser.wires)}
            ctx.tie_n = getattr(ctx, 'tie_n', 0) + 1
            for w, t in ta.timing_map.items():
                if m['timing'][name2id[w.name]] != t:
                    ctx.tie_bad = getattr(ctx, 'tie_bad', 0) + 1
                    break
        else:
            raise RuntimeError('timing model: %s' % m)
    # default (float) delay functions: same structure, compare against DP with the same floats
    with contextlib.redirect_stdout(io.StringIO()):
        ta2 = analysis.TimingAnalysis(block=blk)
    if not all(isinstance(v, (int, float)) and v >= 0 for v in ta2.timing_map.values()):
        ctx.violation('timing-default', 'default timing map has a negative / non-numeric entry', replay)
        ok = False
    def2 = {w.name: t for w, t in ta2.timing_map.items()}
    if def2 != def0:
        bad = sorted(n for n in def0 if def2.get(n) != def0[n])[:1] or sorted(set(def2) ^ set(def0))[:1]
        ctx.violation('timing-default-changed', 'TimingAnalysis() with the default delays gives %r for wire %s after an analysis with custom '
                      'gate_delay_funcs, %r before it' % (def2.get(bad[0]), bad[0], def0.get(bad[0])), replay)
        ok = False
    # default read-port delay: the documented SRAM model of the memory's size and its number of ports in the block
    for n_ in sorted(blk.logic_subset('m'), key=str):
        mem_ = n_.op_param[1]
        rp = sum(1 for x in blk.logic_subset('m') if x.op_param[1] is mem_)
        wp = sum(1 for x in blk.logic_subset('@') if x.op_param[1] is mem_)
        want_d = 270 * 0.130 ** 1.38 * (2 ** mem_.addrwidth * mem_.bitwidth) ** 0.25 * max(rp, wp) ** 1.30 + 1.05
        got_d = ta2.timing_map[n_.dests[0]] - ta2.timing_map[n_.args[0]]
        if abs(got_d - want_d) > 1e-6 * max(1.0, want_d):
            ctx.violation('timing-default-memory', 'default read delay of memory %s (%d read / %d write ports in the block) is %r, the '
                          'documented estimate gives %r' % (mem_.name, rp, wp, got_d, want_d), replay)
            ok = False
            break
    # default delay of every other gate: the calibrated table (constants for the bitwise gates, a*log2(width)+b for
    # + - < > =, the standard-cell multiplier estimate), evaluated on the width of the first operand
    import math as _m

    def default_delay(op, w_):
        const = {'~': 48.5, '&': 98.5, '|': 105.3, '^': 135.07, 'n': 66.0, 'w': 0, 'x': 138.0, 'c': 0, 's': 0}
        if op in const:
            return const[op]
        if op in '+-':
            return 184.0 * _m.log2(w_) + 18.9
        if op in '<>':
            return 101.9 * _m.log2(w_) + 105.4
        if op == '=':
            return 60.1 * _m.log2(w_) + 147
        if op == '*':
            return 98.57 if w_ == 1 else 200.17 if w_ == 2 else 549.1 * _m.log2(w_) - 391.7
        return None
    for n_ in sorted(blk.logic, key=str):
        want_d = default_delay(n_.op, len(n_.args[0])) if n_.args else None
        if want_d is None or n_.op in 'm@r':
            continue
        got_d = ta2.timing_map[n_.dests[0]] - max(ta2.timing_map[a_] for a_ in n_.args)
        ctx.count('default-delay-op', n_.op)
        if abs(got_d - want_d) > 1e-6 * max(1.0, abs(want_d)):
            ctx.violation('timing-default-gate', 'default delay of the %s gate on %d-bit operands (net %s) is %r, the calibrated table gives %r' % (
                n_.op, len(n_.args[0]), str(n_)[:60], got_d, want_d), replay)
            ok = False
            break
    # fanout = number of net argument positions reading the wire
    # (in half of the designs an unrelated block is the working block while fanout() is called)
    from vlib import passlib as _pl
    foreign_f = rng.random() < 0.5
    ctx.count('fanout-working-block', 'foreign' if foreign_f else 'same')
    fo = _pl.run_in(blk, lambda: {w: analysis.fanout(w) for w in blk.wirevector_set}, foreign=foreign_f)
    for w in sorted(blk.wirevector_set, key=lambda w_: w_.name):
        want_f = sum(1 for n in blk.logic for a in n.args if a is w)
        if fo[w] != want_f:
            ctx.violation('fanout', 'fanout(%s) = %d, %d net argument positions read it%s' % (
                w.name, fo[w], want_f, ' (called while another block was the working block)' if foreign_f else ''),
                dict(replay, wire=w.name))
            ok = False
            break
    # paths() with src/dst left out (all Inputs / all Outputs of the block given), called while an unrelated block is
    # the working block
    from vlib import passlib
    ins_all = sorted(blk.wirevector_subset(Input), key=lambda w: w.name)
    outs_all = sorted(blk.wirevector_subset(Output), key=lambda w: w.name)
    try:
        dflt_paths = passlib.run_in(blk, lambda: analysis.paths(block=blk), foreign=True)
        keys = sorted(w.name for w in dflt_paths)
        if keys != [w.name for w in ins_all] or any(sorted(w.name for w in dflt_paths[i_]) != [w.name for w in outs_all] for i_ in dflt_paths):
            ctx.violation('paths-defaults', 'paths(block=b) with src/dst omitted is keyed by %r -> %r, the block has inputs %r and outputs %r' % (
                keys[:4], sorted(w.name for w in list(dflt_paths.values())[0])[:4] if dflt_paths else [], [w.name for w in ins_all][:4],
                [w.name for w in outs_all][:4]), replay)
            ok = False
        elif ins_all and outs_all:
            s0, t0 = ins_all[0], outs_all[0]
            want0 = all_paths(blk, s0, t0)
            if want0 is not None and sorted(path_key(p) for p in dflt_paths[s0][t0]) != sorted(path_key(p) for p in want0):
                ctx.violation('paths-defaults', 'paths(block=b)[%s][%s] differs from the simple net paths' % (s0.name, t0.name), replay)
                ok = False
    except Exception as e:  # noqa
        ctx.violation('paths-defaults-raises', 'paths(block=b) raised %s: %s' % (type(e).__name__, str(e)[:100]), replay)
        ok = False
    # paths(src, dst) = exactly the simple net paths
    srcs = sorted(blk.wirevector_subset((Input, Register)), key=lambda w: w.name)
    dsts = sorted(blk.wirevector_subset((Output, Register)), key=lambda w: w.name)
    pairs = [(s, t) for s in srcs for t in dsts]
    rng.shuffle(pairs)
    for s, t in pairs[:ctx.n(6, 30)]:
        want_p = all_paths(blk, s, t)
        if want_p is None:
            continue
        got_p = analysis.paths(s, t, block=blk)[s][t]
        a = sorted(path_key(p) for p in got_p)
        b = sorted(path_key(p) for p in want_p)
        ctx.count('paths-pairs', 'n')
        ctx.count('paths-found', min(len(b), 5))
        if a != b:
            ctx.violation('paths', 'paths(%s, %s) returns %d paths, there are %d simple net paths (first difference in lengths %r vs %r)' % (
                s.name, t.name, len(a), len(b), sorted(len(p) for p in got_p)[:6], sorted(len(p) for p in want_p)[:6]),
                dict(replay, src=s.name, dst=t.name,
                     extra=[[str(n).strip() for n in p] for p in got_p if path_key(p) not in set(b)][:2],
                     missing=[[str(n).strip() for n in p] for p in want_p if path_key(p) not in set(a)][:2]))
            ok = False
            break
        dist = analysis.distance(s, t, lambda n: tab.get(n.op, 1), block=blk)
        for p in got_p:
            if dist.get(tuple(p)) != sum(tab.get(n.op, 1) for n in p):
                ctx.violation('distance', 'distance(%s, %s) disagrees with the summed net values' % (s.name, t.name), replay)
                ok = False
                break
    # several sources and destinations in one call (internal wires too, so that a path from one source may run
    # through another requested source or destination): each entry is the single-pair answer
    inner = sorted((n.dests[0] for n in blk.logic if n.dests and not isinstance(n.dests[0], (Output, Register))), key=lambda w: w.name)
    if ok and srcs and dsts:
        ms = rng.sample(srcs, min(len(srcs), rng.randint(1, 3))) + rng.sample(inner, min(len(inner), rng.randint(0, 3)))
        md_ = rng.sample(dsts, min(len(dsts), rng.randint(1, 3))) + rng.sample(inner, min(len(inner), rng.randint(0, 2)))
        ms = list(dict.fromkeys(ms))
        md_ = list(dict.fromkeys(md_))
        wants = {(s, t): all_paths(blk, s, t) for s in ms for t in md_}
        if all(v is not None for v in wants.values()):
            try:
                multi = analysis.paths(ms if rng.random() < 0.7 else tuple(ms), md_, block=blk)
                ctx.count('paths-multi', '%dx%d' % (min(len(ms), 4), min(len(md_), 4)))
                for (s, t), want_p in wants.items():
                    a = sorted(path_key(p) for p in multi[s][t])
                    b = sorted(path_key(p) for p in want_p)
                    if a != b:
                        ctx.violation('paths-multi', 'paths(%r, %r)[%s][%s] has %d paths, there are %d simple net paths' % (
                            [w.name for w in ms], [w.name for w in md_], s.name, t.name, len(a), len(b)),
                            dict(replay, srcs=[w.name for w in ms], dsts=[w.name for w in md_], src=s.name, dst=t.name))
                        ok = False
                        break
            except Exception as e:  # noqa
                ctx.violation('paths-multi-raises', 'paths(%r, %r) raised %s: %s' % (
                    [w.name for w in ms], [w.name for w in md_], type(e).__name__, str(e)[:100]), replay)
                ok = False
    # no sources or no destinations asked for (an empty list, tuple or set): no pair, no path
    if ok and srcs and dsts:
        empty_ = rng.choice([[], (), set()])
        for what_, args_ in (('src=%r' % (empty_,), (empty_, rng.choice(dsts))), ('dst=%r' % (empty_,), (rng.choice(srcs), empty_)),
                             ('src=%r, dst=%r' % (empty_, empty_), (empty_, empty_))):
            try:
                res_ = analysis.paths(args_[0], args_[1], block=blk)
                n_paths = sum(len(ps_) for d_ in res_.values() for ps_ in d_.values())
            except Exception as e:  # noqa
                n_paths = '%s raised' % type(e).__name__
            ctx.count('paths-empty-request', what_.split('=')[0])
            if n_paths != 0:
                ctx.violation('paths-empty-request', 'paths(%s) (the other side a single wire) reports %s paths; no pair was asked for' % (what_, n_paths),
                              dict(replay, request=what_))
                ok = False
                break
    return ok


def mem_loop_design(rng):
    """memories with several read ports whose data feeds back into write ports (write -> read paths that could
    revisit a memory through another port)"""
    pyrtl.reset_working_block()
    d = gen.Design()
    i = Input(4, 'i')
    ra = Input(2, 'ra')
    d.inputs = [i, ra]
    m = pyrtl.MemBlock(4, 2, 'mem', asynchronous=True, max_read_ports=None, max_write_ports=None)
    reads = []
    for k in range(rng.randint(2, 3)):
        a = ra if k == 0 or rng.random() < 0.5 else (ra + k)[:2]
        reads.append(m[a])
    wa = rng.choice([~reads[0][:2], reads[-1][:2], (reads[0] + i)[:2]])
    m[wa] <<= pyrtl.MemBlock.EnabledWrite(rng.choice([i, reads[0] ^ i]), rng.choice([i[0], pyrtl.Const(1, 1)]))
    if rng.random() < 0.5:
        m2 = pyrtl.MemBlock(4, 2, 'mem2', asynchronous=True, max_read_ports=None, max_write_ports=None)
        m2[reads[1][:2]] <<= i
        reads.append(m2[ra])
        d.mems = [m, m2]
    else:
        d.mems = [m]
    for k, r in enumerate(reads):
        o = Output(4, 'o%d' % k)
        o <<= r
        d.outputs.append(o)
    d.block = pyrtl.working_block()
    d.profile = 'memloop'
    return d


def reanalysis_after_edit(ctx):
    """an analysis describes the block as it is now: a design is analysed, extended (its memory gains read ports), and
    analysed again -- the second analysis equals the analysis of the same extended design built in one go in a fresh
    block, and the read delay follows the documented estimate for the memory's present number of ports"""
    rng = ctx.rng

    def build(aw, dw, extra, analyse_first):
        pyrtl.reset_working_block()
        mem = pyrtl.MemBlock(dw, aw, name='m', asynchronous=True, max_read_ports=None, max_write_ports=None)
        addrs = [pyrtl.Input(aw, 'a%d' % i) for i in range(4)]
        din, we = pyrtl.Input(dw, 'din'), pyrtl.Input(1, 'we')
        o0 = pyrtl.Output(dw, 'o0')
        o0 <<= mem[addrs[0]]
        mem[addrs[1]] <<= pyrtl.MemBlock.EnabledWrite(din, we)
        blk = pyrtl.working_block()
        with contextlib.redirect_stdout(io.StringIO()):
            if analyse_first:
                analysis.TimingAnalysis(block=blk)
            for i in range(extra):
                o = pyrtl.Output(dw + 1, 'x%d' % i)
                o <<= mem[addrs[(2 + i) % 4]] + din
            ta = analysis.TimingAnalysis(block=blk)
        return {w.name: t for w, t in ta.timing_map.items() if isinstance(w, pyrtl.Output)}, ta.max_length()
    for k in range(ctx.n(12, 80)):
        aw, dw, extra = rng.randint(1, 6), rng.randint(1, 9), rng.randint(1, 3)
        replay = {'kind': 'reanalysis', 'aw': aw, 'dw': dw, 'extra_read_ports': extra}
        now, len_now = build(aw, dw, extra, True)
        fresh, len_fresh = build(aw, dw, extra, False)
        ctx.evaluations += 1
        ctx.count('reanalysis', 'read-ports=%d' % (1 + extra))
        rp = 1 + extra
        want_d = 270 * 0.130 ** 1.38 * (2 ** aw * dw) ** 0.25 * rp ** 1.30 + 1.05
        if now != fresh or abs(now['o0'] - want_d) > 1e-6 * want_d or abs(len_now - len_fresh) > 1e-9:
            bad = sorted(n_ for n_ in fresh if now.get(n_) != fresh[n_])[:1] or ['o0']
            ctx.violation('timing-reanalysis', 'a memory analysed with 1 read port, then given %d more: the second TimingAnalysis gives %r for wire %s, '
                          'the analysis of the same design built in a fresh block gives %r (read delay for %d ports: %r)' % (
                              extra, now.get(bad[0]), bad[0], fresh.get(bad[0]), rp, want_d), replay)
            return


def main(ctx):
    proofs_ok = proof_gate(ctx, gen_modules=[])
    rng = ctx.rng
    n = ctx.n(150, 3000)
    agree = 0
    for k in ctx.loop(n):
        if k % 5 == 4:
            d = mem_loop_design(rng)
            ok = check_design(ctx, d, rng, 'memloop#%d' % k)
            agree += ok
            ctx.case(('memloop', len(d.block.logic)), nontrivial=True)
            continue
        d = gen.rand_design(rng, profile='small', nops=rng.randint(3, 9), raw=False, nregs=rng.randint(0, 2),
                            nmems=rng.choice([0, 1]), nroms=0, outputs='most')
        if k % 3 == 0 and d.regs:
            # a register feeding its own next through logic (loops for paths[src][src])
            pass
        ok = check_design(ctx, d, rng, 'ana#%d' % k)
        agree += ok
        desc = d.describe()
        ctx.case((desc['nets'], tuple(desc['ops'])), nontrivial=desc['nets'] >= 3)
        ctx.sample({'design': desc})
        if len(ctx.violations) >= 6:
            break
    if len(ctx.violations) < 6:
        reanalysis_after_edit(ctx)
    tb, tn = getattr(ctx, 'tie_bad', 0), getattr(ctx, 'tie_n', 0)
    ctx.oblige('tie:TimingAnalysis.timing_map = Lean Analysis.timingMap', tb == 0, '%d/%d designs differ' % (tb, tn))
    ctx.oblige('property:timing = longest path, critical paths attain it, max_freq formula, paths = simple net paths, fanout',
               not ctx.violations, '%d/%d designs' % (agree, n))
    return conclude(ctx, rule='random small designs (reconvergent fan-out, registers, memories with write->read paths) x random integer '
                    'gate delays in {0,1,2,3,5} (many ties) and the default float delays x all sampled (src, dst) pairs; '
                    'oracle = explicit path enumeration; distinct = (net count, op set)')
