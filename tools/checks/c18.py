"""C18 — AES and PRNG generators implement their published algorithms.

Tie A: the AES tables are regenerated from rtllib/aes.py on every run and re-checked in the Lean
kernel against FIPS-197 computed from first principles (Proofs/Props/C18.lean).
Oracle: independent references written from the publications (FIPS-197 AES-128 incl. the Appendix C
vector, xoroshiro128+, the 127-bit Fibonacci LFSR with taps 126/125, Trivium) against the real
circuits under the documented load/req/ready protocol, incl. random load/req interleavings."""
import pyrtl
from pyrtl import Input, Output
from pyrtl.rtllib import aes, prngs
from vlib.common import proof_gate, conclude

# ---------------------------------------------------------------- FIPS-197 from first principles


def xtime(a):
    a <<= 1
    return (a ^ 0x11b) & 0xff if a & 0x100 else a


def gmul(a, b):
    r = 0
    while b:
        if b & 1:
            r ^= a
        a = xtime(a)
        b >>= 1
    return r


def ginv(a):
    if a == 0:
        return 0
    r = 1
    for _ in range(254):
        r = gmul(r, a)
    return r


def sbox_ref(a):
    x = ginv(a)
    r = 0
    for i in range(8):
        b = ((x >> i) ^ (x >> ((i + 4) % 8)) ^ (x >> ((i + 5) % 8)) ^ (x >> ((i + 6) % 8)) ^ (x >> ((i + 7) % 8)) ^ (0x63 >> i)) & 1
        r |= b << i
    return r


SBOX = [sbox_ref(a) for a in range(256)]
INV = [SBOX.index(a) for a in range(256)]


def key_expansion(key16):
    w = [list(key16[4 * i:4 * i + 4]) for i in range(4)]
    rc = 1
    for i in range(4, 44):
        t = list(w[i - 1])
        if i % 4 == 0:
            t = t[1:] + t[:1]
            t = [SBOX[x] for x in t]
            t[0] ^= rc
            rc = xtime(rc)
        w.append([a ^ b for a, b in zip(w[i - 4], t)])
    return [sum(w[4 * r:4 * r + 4], []) for r in range(11)]


def aes_encrypt(pt, key):
    s = list(pt.to_bytes(16, 'big'))
    ks = key_expansion(list(key.to_bytes(16, 'big')))
    s = [a ^ b for a, b in zip(s, ks[0])]
    for rnd in range(1, 11):
        s = [SBOX[x] for x in s]
        s = [s[(i + 4 * (i % 4)) % 16] for i in range(16)]
        if rnd != 10:
            n = []
            for c in range(4):
                a = s[4 * c:4 * c + 4]
                n += [gmul(2, a[0]) ^ gmul(3, a[1]) ^ a[2] ^ a[3], a[0] ^ gmul(2, a[1]) ^ gmul(3, a[2]) ^ a[3],
                      a[0] ^ a[1] ^ gmul(2, a[2]) ^ gmul(3, a[3]), gmul(3, a[0]) ^ a[1] ^ a[2] ^ gmul(2, a[3])]
            s = n
        s = [a ^ b for a, b in zip(s, ks[rnd])]
    return int.from_bytes(bytes(s), 'big')


def xoro_ref(s0, s1, n):
    M = (1 << 64) - 1
    out = []
    rotl = lambda x, k: ((x << k) | (x >> (64 - k))) & M   # noqa
    for _ in range(n):
        out.append((s0 + s1) & M)
        s1 ^= s0
        s0, s1 = rotl(s0, 55) ^ s1 ^ ((s1 << 14) & M), rotl(s1, 36)
    return out


def lfsr_ref(state, steps, width):
    for _ in range(steps):
        bit = ((state >> 125) ^ (state >> 126)) & 1
        state = ((state << 1) | bit) & ((1 << width) - 1)
    return state


def trivium_step(a, b, c):
    bit = lambda x, i: (x >> i) & 1   # noqa
    t1 = bit(a, 65) ^ bit(a, 92)
    t2 = bit(b, 68) ^ bit(b, 83)
    t3 = bit(c, 65) ^ bit(c, 110)
    fa = t3 ^ (bit(c, 108) & bit(c, 109)) ^ bit(a, 68)
    fb = t1 ^ (bit(a, 90) & bit(a, 91)) ^ bit(b, 77)
    fc = t2 ^ (bit(b, 81) & bit(b, 82)) ^ bit(c, 86)
    return ((a << 1) | fa) & ((1 << 93) - 1), ((b << 1) | fb) & ((1 << 84) - 1), ((c << 1) | fc) & ((1 << 111) - 1), t1 ^ t2 ^ t3

# ---------------------------------------------------------------- checks


def sim_of(ctx):
    return pyrtl.FastSimulation() if ctx.quick() else pyrtl.Simulation()


def check_aes(ctx):
    rng = ctx.rng
    assert aes_encrypt(0x00112233445566778899aabbccddeeff, 0x000102030405060708090a0b0c0d0e0f) == 0x69c4e0d86a7b0430d8cdb78070b4c55a
    pyrtl.reset_working_block()
    A = aes.AES()
    pt, key, rst = Input(128, 'pt'), Input(128, 'key'), Input(1, 'rst')
    ctw = A.encryption(pt, key)
    ct = Output(128, 'ct')
    ct <<= ctw
    dt = Output(128, 'dt')
    dt <<= A.decryption(ctw, key)
    rdy, sm = A.encrypt_state_m(pt, key, rst)
    r1, c1 = Output(1, 'r1'), Output(128, 'c1')
    r1 <<= rdy
    c1 <<= sm
    sim = pyrtl.FastSimulation()
    cases = [(0x00112233445566778899aabbccddeeff, 0x000102030405060708090a0b0c0d0e0f), (0, 0), ((1 << 128) - 1, (1 << 128) - 1),
             (0, (1 << 128) - 1), (1 << 127, 1)]
    cases += [(rng.getrandbits(128), rng.getrandbits(128)) for _ in range(ctx.n(6, 60))]
    for p, k in cases:
        exp = aes_encrypt(p, k)
        sim.step({'pt': p, 'key': k, 'rst': 1})
        ctx.evaluations += 1
        rep = {'kind': 'aes', 'plaintext': hex(p), 'key': hex(k)}
        if sim.inspect('ct') != exp:
            ctx.violation('aes-encrypt', 'AES.encryption(%x, %x) = %x, FIPS-197 gives %x' % (p, k, sim.inspect('ct'), exp), rep)
            return
        if sim.inspect('dt') != p:
            ctx.violation('aes-decrypt', 'AES.decryption(encryption(p)) = %x for p = %x' % (sim.inspect('dt'), p), rep)
            return
        first1 = None
        for cyc in range(1, 14):
            sim.step({'pt': p, 'key': k, 'rst': 0})
            if sim.inspect('r1') and first1 is None:
                first1 = cyc
                if sim.inspect('c1') != exp:
                    ctx.violation('aes-encrypt-statem', 'encrypt_state_m ready at cycle %d with %x, expected %x' % (cyc, sim.inspect('c1'), exp), rep)
                    return
            elif first1 is not None and (not sim.inspect('r1') or sim.inspect('c1') != exp):
                ctx.violation('aes-encrypt-statem-hold', 'encrypt_state_m does not hold ready/result after completion (cycle %d)' % cyc, rep)
                return
        if first1 is None:
            ctx.violation('aes-statem-never-ready', 'encrypt_state_m never asserted ready within 13 cycles', rep)
            return
        ctx.count('aes-ready-cycle', 'enc%d' % first1)
    # several units built from ONE AES object, each with its own key wire
    pyrtl.reset_working_block()
    A = aes.AES()
    ins = {}
    for nm in ('pa', 'ka', 'pb', 'kb', 'cc', 'kc'):
        ins[nm] = Input(128, nm)
    for nm, w in (('ea', A.encryption(ins['pa'], ins['ka'])), ('eb', A.encryption(ins['pb'], ins['kb'])),
                  ('dc', A.decryption(ins['cc'], ins['kc']))):
        o = Output(128, nm)
        o <<= w
    sim = pyrtl.FastSimulation()
    for _ in range(ctx.n(4, 30)):
        v = {nm: rng.getrandbits(128) for nm in ('pa', 'ka', 'pb', 'kb', 'kc')}
        pc = rng.getrandbits(128)
        v['cc'] = aes_encrypt(pc, v['kc'])
        sim.step(v)
        ctx.evaluations += 1
        for nm, exp in (('ea', aes_encrypt(v['pa'], v['ka'])), ('eb', aes_encrypt(v['pb'], v['kb'])), ('dc', pc)):
            if sim.inspect(nm) != exp:
                ctx.violation('aes-shared-object:' + nm, 'three units built from one AES object with three key inputs: unit %s gives %x, '
                              'FIPS-197 with its own key gives %x' % (nm, sim.inspect(nm), exp),
                              {'kind': 'aes-multi', 'values': {k_: hex(x) for k_, x in v.items()}, 'unit': nm})
                return
    # the decryption state machine, in its own block (both machines name a register 'counter')
    pyrtl.reset_working_block()
    A = aes.AES()
    ctin, key, rst = Input(128, 'ct'), Input(128, 'key'), Input(1, 'rst')
    rdy2, sm2 = A.decryption_statem(ctin, key, rst)
    r2, p2 = Output(1, 'r2'), Output(128, 'p2')
    r2 <<= rdy2
    p2 <<= sm2
    sim = pyrtl.FastSimulation()
    for p, k in cases[:ctx.n(6, 40)]:
        c = aes_encrypt(p, k)
        rep = {'kind': 'aes-dec-statem', 'plaintext': hex(p), 'key': hex(k)}
        sim.step({'ct': c, 'key': k, 'rst': 1})
        first2 = None
        for cyc in range(1, 14):
            sim.step({'ct': c, 'key': k, 'rst': 0})
            if sim.inspect('r2') and first2 is None:
                first2 = cyc
                if sim.inspect('p2') != p:
                    ctx.violation('aes-decrypt-statem', 'decryption_statem ready at cycle %d with %x, expected %x' % (cyc, sim.inspect('p2'), p), rep)
                    return
            elif first2 is not None and (not sim.inspect('r2') or sim.inspect('p2') != p):
                ctx.violation('aes-decrypt-statem-hold', 'decryption_statem does not hold ready/result after completion', rep)
                return
        ctx.evaluations += 1
        if first2 is None:
            ctx.violation('aes-statem-never-ready', 'decryption_statem never asserted ready within 13 cycles', rep)
            return
        ctx.count('aes-ready-cycle', 'dec%d' % first2)
    ctx.distinct.add('aes')
    ctx.sample({'aes_cases': len(cases)})


def check_xoroshiro(ctx):
    rng = ctx.rng
    for bw in sorted(set([1, 7, 63, 64, 65, 100, 128, 129, 200, 256] + [rng.randint(1, 256) for _ in range(ctx.n(4, 40))])):
        pyrtl.reset_working_block()
        load, req, seed = Input(1, 'load'), Input(1, 'req'), Input(128, 'seed')
        rdy, rnd = prngs.prng_xoroshiro128(bw, load, req, seed)
        ro, rr = Output(1, 'rdy'), Output(bw, 'rand')
        ro <<= rdy
        rr <<= rnd
        sim = pyrtl.FastSimulation()
        nw = (bw + 63) // 64
        for phase in range(2):
          # phase 1 reseeds the running generator (sometimes with a request pulse in the very same cycle:
          # load wins in all three generators, and ready is defined as ~load & ~req & ...)
          sd = rng.getrandbits(128) | 1
          s0, s1 = sd & ((1 << 64) - 1), sd >> 64
          sim.step({'load': 1, 'req': int(phase == 1 and rng.random() < 0.5), 'seed': sd})
          stream = xoro_ref(s0, s1, nw * 4)
          pos = 0
          for rq in range(3 if phase == 0 else 2):
              # optional idle cycles between requests (arbitrary interleaving of req pulses)
              for _ in range(rng.choice([0, 0, 1, 3]) if (rq or phase == 0) else rng.choice([1, 2, 5])):
                  sim.step({'load': 0, 'req': 0, 'seed': sd})
                  if rq == 0 and sim.inspect('rdy'):
                      # nothing has been requested since the (re)seed: no number has been produced from it
                      ctx.violation('xoroshiro-ready-after-load', 'prng_xoroshiro128(bitwidth=%d): ready is asserted in an idle cycle after a load '
                                    'pulse although no number was requested since (phase %d)' % (bw, phase),
                                    {'kind': 'xoroshiro', 'bitwidth': bw, 'seed': hex(sd), 'phase': phase})
                      return
              sim.step({'load': 0, 'req': 1, 'seed': sd})
              n = 0
              while not sim.inspect('rdy') and n < 4 * nw + 8:
                  sim.step({'load': 0, 'req': 0, 'seed': sd})
                  n += 1
              words = stream[pos:pos + nw]
              pos += nw
              full = 0
              for w in words:
                  full = (full << 64) | w
              exp = full >> (64 * nw - bw)
              ctx.evaluations += 1
              if sim.inspect('rdy') and sim.inspect('rand') == exp and rng.random() < 0.5:
                  sim.step({'load': 0, 'req': 0, 'seed': sd})      # an idle cycle: ready and the number are held
              if not sim.inspect('rdy') or sim.inspect('rand') != exp:
                  ctx.violation('xoroshiro', 'prng_xoroshiro128(bitwidth=%d) request %d: ready=%d rand=%x, xoroshiro128+ gives %x' % (
                      bw, rq, sim.inspect('rdy'), sim.inspect('rand'), exp), {'kind': 'xoroshiro', 'bitwidth': bw, 'seed': hex(sd), 'request': rq, 'phase': phase})
                  return
        ctx.distinct.add('xoro%d' % bw)


def check_lfsr(ctx):
    rng = ctx.rng
    for bw in sorted(set([1, 5, 64, 126, 127, 128, 200, 256] + [rng.randint(1, 256) for _ in range(ctx.n(4, 40))])):
        pyrtl.reset_working_block()
        load, req, seed = Input(1, 'load'), Input(1, 'req'), Input(127, 'seed')
        rnd = prngs.prng_lfsr(bw, load, req, seed)
        rr = Output(bw, 'rand')
        rr <<= rnd
        sim = pyrtl.FastSimulation()
        sd = rng.getrandbits(127) | 1
        width = 127 if bw < 127 else bw
        sim.step({'load': 1, 'req': 0, 'seed': sd})
        state = sd
        for rq in range(3):
            for _ in range(rng.choice([0, 1, 2])):
                sim.step({'load': 0, 'req': 0, 'seed': sd})    # no request: the state must hold
            sim.step({'load': 0, 'req': 1, 'seed': sd})
            sim.step({'load': 0, 'req': 0, 'seed': sd})
            state = lfsr_ref(state, bw, width)
            exp = state & ((1 << bw) - 1)
            ctx.evaluations += 1
            if sim.inspect('rand') != exp:
                ctx.violation('lfsr', 'prng_lfsr(bitwidth=%d) request %d: rand=%x, the 127-bit Fibonacci LFSR (taps 126/125) leaping %d steps gives %x' % (
                    bw, rq, sim.inspect('rand'), bw, exp), {'kind': 'lfsr', 'bitwidth': bw, 'seed': hex(sd), 'request': rq})
                return
        # arbitrary interleaving of load / req pulses, the seed input changing every cycle; a load pulse that
        # coincides with a request reseeds (load has priority in the conditional assignment of all three generators)
        hist = []
        for t in range(ctx.n(16, 40)):
            l, r, s_ = int(rng.random() < 0.3), int(rng.random() < 0.5), rng.getrandbits(127)
            hist.append([l, r, s_])
            sim.step({'load': l, 'req': r, 'seed': s_})
            ctx.evaluations += 1
            if sim.inspect('rand') != state & ((1 << bw) - 1):
                ctx.violation('lfsr-interleaving', 'prng_lfsr(bitwidth=%d) cycle %d of a load/req interleaving: rand=%x, the LFSR (reseeded by every load '
                              'pulse, leaping on req otherwise, else holding) gives %x' % (bw, t, sim.inspect('rand'), state & ((1 << bw) - 1)),
                              {'kind': 'lfsr-interleaving', 'bitwidth': bw, 'cycle': t})
                return
            if l:
                state = s_
            elif r:
                state = lfsr_ref(state, bw, width)
        # tie: the Lean register-level model (Model/Lib/Prng.lean; theorems lfsr_history_eq_spec, lfsr_after_load) on a
        # fresh circuit and a fresh random history from reset, cycle by cycle
        sim2 = pyrtl.FastSimulation()
        hist = [[int(rng.random() < 0.3), int(rng.random() < 0.5), rng.getrandbits(127)] for _ in range(ctx.n(20, 60))]
        real = []
        for l, r, s_ in hist:
            sim2.step({'load': l, 'req': r, 'seed': s_})
            real.append(sim2.inspect('rand'))
        mod = ctx.driver.ask({'cmd': 'lfsr', 'bitwidth': bw, 'steps': hist})
        if not mod.get('ok'):
            raise RuntimeError('lfsr model: %s' % mod)
        ctx.lfsr_tie_n = getattr(ctx, 'lfsr_tie_n', 0) + 1
        if real != list(mod['trace']):
            ctx.lfsr_tie_bad = getattr(ctx, 'lfsr_tie_bad', 0) + 1
            c = next(i for i in range(len(real)) if real[i] != mod['trace'][i])
            ctx.extra.setdefault('lfsr_tie_mismatch', []).append({'bitwidth': bw, 'cycle': c, 'circuit': hex(real[c]), 'model': hex(mod['trace'][c])})
        ctx.distinct.add('lfsr%d' % bw)


def check_trivium(ctx):
    rng = ctx.rng
    combos = [(8, 1), (64, 64), (100, 32), (128, 64), (37, 4), (1, 2), (65, 16), (256, 8), (16, 64), (3, 8), (5, 64), (1, 64), (33, 64)]
    if not ctx.quick():
        combos += [(rng.randint(1, 256), rng.choice([1, 2, 4, 8, 16, 32, 64])) for _ in range(20)]
    for bw, bpc in combos:
        pyrtl.reset_working_block()
        load, req, seed = Input(1, 'load'), Input(1, 'req'), Input(160, 'seed')
        rdy, rnd = prngs.csprng_trivium(bw, load, req, seed, bits_per_cycle=bpc)
        ro, rr = Output(1, 'rdy'), Output(bw, 'rand')
        ro <<= rdy
        rr <<= rnd
        sim = pyrtl.FastSimulation()
        sd = rng.getrandbits(160)
        a, b, c = sd >> 80, sd & ((1 << 80) - 1), 7 << 108
        for _ in range(1152):
            a, b, c, _o = trivium_step(a, b, c)
        sim.step({'load': 1, 'req': 0, 'seed': sd})
        n = 0
        while not sim.inspect('rdy') and n < 1300:
            sim.step({'load': 0, 'req': 0, 'seed': sd})
            n += 1
        ctx.count('trivium-init-cycles', '%d/bpc%d' % (n, bpc))   # informational: only the stream is specified
        for rq in range(3):
            for _ in range(rng.choice([0, 2])):
                sim.step({'load': 0, 'req': 0, 'seed': sd})
            ncyc = -(-bw // bpc)
            out = 0
            for _ in range(ncyc * bpc):
                a, b, c, o = trivium_step(a, b, c)
                out = (out << 1) | o
            exp = out & ((1 << bw) - 1)
            sim.step({'load': 0, 'req': 1, 'seed': sd})
            m = 0
            while not sim.inspect('rdy') and m < 300:
                sim.step({'load': 0, 'req': 0, 'seed': sd})
                m += 1
            ctx.evaluations += 1
            if sim.inspect('rand') != exp or not sim.inspect('rdy'):
                ctx.violation('trivium', 'csprng_trivium(bitwidth=%d, bits_per_cycle=%d) request %d: rand=%x, Trivium gives %x' % (
                    bw, bpc, rq, sim.inspect('rand'), exp), {'kind': 'trivium', 'bitwidth': bw, 'bits_per_cycle': bpc, 'seed': hex(sd)})
                return
            # the number stays available while the generator idles
            for _ in range(rng.choice([1, 2])):
                sim.step({'load': 0, 'req': 0, 'seed': sd})
                if sim.inspect('rand') != exp or not sim.inspect('rdy'):
                    ctx.violation('trivium-hold', 'csprng_trivium(bitwidth=%d, bits_per_cycle=%d) request %d: in an idle cycle after ready, ready=%d rand=%x '
                                  '(the generated number is %x)' % (bw, bpc, rq, sim.inspect('rdy'), sim.inspect('rand'), exp),
                                  {'kind': 'trivium', 'bitwidth': bw, 'bits_per_cycle': bpc, 'seed': hex(sd)})
                    return
        ctx.distinct.add('trivium%d/%d' % (bw, bpc))


def main(ctx):
    proofs_ok = proof_gate(ctx, gen_modules=['AesTables'])
    # the tables the circuit is built from must be the ones the theorems were checked against
    tbl_bad = 0
    if list(aes.AES._sbox_data) != SBOX or list(aes.AES._inv_sbox_data) != INV:
        tbl_bad += 1
        ctx.violation('aes-sbox-table', 'AES S-box table differs from FIPS-197 (affine transform of the GF(2^8) inverse)', {'kind': 'aes-table'})
    for k, t in ((2, aes.AES._GM2_data), (3, aes.AES._GM3_data), (9, aes.AES._GM9_data), (11, aes.AES._GM11_data),
                 (13, aes.AES._GM13_data), (14, aes.AES._GM14_data)):
        if list(t) != [gmul(k, x) for x in range(256)]:
            ctx.violation('aes-gm-table', 'GM%d table differs from GF(2^8) multiplication by %d' % (k, k), {'kind': 'aes-table', 'k': k})
    check_aes(ctx)
    check_xoroshiro(ctx)
    check_lfsr(ctx)
    check_trivium(ctx)
    ctx.oblige('tie:prng_lfsr circuit = Lean Prng.lfsrStep model (random load/req/seed histories)', getattr(ctx, 'lfsr_tie_bad', 0) == 0,
               '%d/%d histories differ' % (getattr(ctx, 'lfsr_tie_bad', 0), getattr(ctx, 'lfsr_tie_n', 0)))
    ctx.oblige('oracle:AES = FIPS-197, PRNG streams = published algorithms under load/req/ready', not ctx.violations,
               '%d evaluations' % ctx.evaluations)
    return conclude(ctx, rule='AES: FIPS-197 Appendix C vector, all-zero/all-one and random keys/blocks, single-cycle and both state '
                    'machines (ready cycle, result held); xoroshiro128+ and LFSR at bitwidths 1..256 (limb boundaries + random) '
                    'with three requests and idle cycles between them; Trivium for (bitwidth, bits_per_cycle) pairs incl. INIT '
                    'length; distinct = generator instances')
