"""C19 — rtllib Matrix operations equal integer-matrix arithmetic modulo the result width.

For shapes up to 4x4 and mixed element widths 1..8 every Matrix operation is built on Inputs,
evaluated (FastSimulation of the real netlist) on boundary + random element values (exhaustive for
tiny shapes) and compared with plain integer-matrix arithmetic reduced modulo 2^bits of the result;
for +, * and @ the declared width must hold the exact value when max_bits is not reached.
Proofs: Proofs/Props/C19.lean (element layout in to/from WireVector, reshape/flatten index
arithmetic, width sufficiency inequalities)."""
import itertools
import pyrtl
from pyrtl import Input, Output
from pyrtl.rtllib import matrix as M
from vlib.common import proof_gate, conclude


def pack(v, b):
    x = 0
    for row in v:
        for e in row:
            x = (x << b) | e
    return x


def unpack(x, r, c, b):
    return [[(x >> (b * ((r - 1 - i) * c + (c - 1 - j)))) & ((1 << b) - 1) for j in range(c)] for i in range(r)]


def run(ctx, name, shapes, build, spec, exact_ops=False, scalar_ins=()):
    """shapes: [(rows, cols, bits)]; build(*mats) -> Matrix or wire; spec(*int matrices) -> int matrix or int"""
    rng = ctx.rng
    pyrtl.reset_working_block()
    mats = []
    for k, (r, c, b) in enumerate(shapes):
        i = Input(r * c * b, 'i%d' % k)
        mats.append(M.Matrix(r, c, b, value=i))
    key = '%s%s' % (name, shapes)
    try:
        res = build(*mats)
    except Exception as e:  # noqa
        ctx.violation('matrix-raises:' + name, '%s raised %s: %s' % (key, type(e).__name__, str(e)[:160]),
                      {'kind': 'matrix', 'op': name, 'shapes': shapes})
        return
    if isinstance(res, M.Matrix):
        o = Output(len(res), 'o')
        o <<= res.to_wirevector()
        rr, cc, bb = res.rows, res.columns, res.bits
    else:
        res = pyrtl.as_wires(res)
        o = Output(len(res), 'o')
        o <<= res
        rr = cc = 1
        bb = len(res)
    sim = pyrtl.FastSimulation()
    total_bits = sum(r * c * b for r, c, b in shapes)
    if total_bits <= 8:
        combos = [[unpack(x, r, c, b) for (r, c, b), x in zip(shapes, xs)]
                  for xs in itertools.product(*[range(1 << (r * c * b)) for r, c, b in shapes])]
    else:
        combos = []
        for t in range(ctx.n(24, 80)):
            combos.append([[[rng.choice([0, 1, (1 << b) - 1, rng.getrandbits(b)]) for _ in range(c)] for _ in range(r)]
                           for (r, c, b) in shapes])
    for vals in combos:
        sim.step({'i%d' % k: pack(v, b) for k, ((r, c, b), v) in enumerate(zip(shapes, vals))})
        got = sim.inspect('o')
        gm = unpack(got, rr, cc, bb)
        exp = spec(*vals)
        if not isinstance(exp, list):
            exp = [[exp]]
        if len(exp) != rr or len(exp[0]) != cc:
            ctx.violation('matrix-shape:' + name, '%s result shape %dx%d, integer-matrix operation gives %dx%d' % (
                key, rr, cc, len(exp), len(exp[0])), {'kind': 'matrix', 'op': name, 'shapes': shapes})
            return
        em = [[e % (1 << bb) for e in row] for row in exp]
        ctx.evaluations += 1
        if gm != em:
            ctx.violation('matrix-value:' + name, '%s on %r gives %r (bits=%d), integer-matrix arithmetic mod 2^bits gives %r' % (
                key, vals, gm, bb, em), {'kind': 'matrix', 'op': name, 'shapes': shapes, 'values': vals, 'got': gm, 'want': em, 'bits': bb})
            return
        if exact_ops and any(e >= (1 << bb) for row in exp for e in row):
            ctx.violation('matrix-width:' + name, '%s: declared width %d cannot hold the exact result %r (max_bits not reached)' % (
                key, bb, exp), {'kind': 'matrix', 'op': name, 'shapes': shapes, 'values': vals, 'bits': bb})
            return
    ctx.distinct.add(key)
    ctx.count('operation', name)
    ctx.sample({'op': name, 'shapes': shapes, 'cases': len(combos), 'result_bits': bb}, limit=8)


def mm(a, b):
    return [[sum(a[i][k] * b[k][j] for k in range(len(b))) for j in range(len(b[0]))] for i in range(len(a))]


def main(ctx):
    proofs_ok = proof_gate(ctx, gen_modules=[])
    rng = ctx.rng
    shapes = [(1, 1), (1, 2), (2, 1), (2, 2), (2, 3), (3, 2), (3, 3), (1, 4), (4, 1), (4, 4)]
    nshapes = ctx.n(6, 10)
    for (r, c) in rng.sample(shapes, nshapes):
        for _w in range(ctx.n(2, 5)):
            ba, bb_ = rng.randint(1, 8), rng.randint(1, 8)
            flat = lambda a: [e for row in a for e in row]   # noqa
            run(ctx, 'add', [(r, c, ba), (r, c, bb_)], lambda a, b: a + b,
                lambda a, b: [[x + y for x, y in zip(ra, rb)] for ra, rb in zip(a, b)], exact_ops=True)
            run(ctx, 'sub', [(r, c, ba), (r, c, bb_)], lambda a, b: a - b,
                lambda a, b: [[max(x - y, 0) for x, y in zip(ra, rb)] for ra, rb in zip(a, b)])
            run(ctx, 'mul', [(r, c, ba), (r, c, bb_)], lambda a, b: a * b,
                lambda a, b: [[x * y for x, y in zip(ra, rb)] for ra, rb in zip(a, b)], exact_ops=True)
            run(ctx, 'matmul', [(r, c, ba), (c, r, bb_)], lambda a, b: a @ b, mm, exact_ops=True)
            def dot_spec(a, b):
                ra, ca, rb, cb = len(a), len(a[0]), len(b), len(b[0])
                if (ra == 1 and ca == 1) or (rb == 1 and cb == 1):
                    if ra == 1 and ca == 1 and rb == 1 and cb == 1:
                        return [[a[0][0] * b[0][0]]]
                    return None
                if (ra == 1 or ca == 1) and (rb == 1 or cb == 1):
                    fa = [e for row in a for e in row]
                    fb = [e for row in b for e in row]
                    return sum(x * y for x, y in zip(fa, fb))
                return mm(a, b)
            if not ((r == 1 and c == 1)):
                run(ctx, 'dot', [(r, c, ba), (c, r, bb_)], lambda a, b: M.dot(a, b), dot_spec)
            run(ctx, 'transpose', [(r, c, ba)], lambda a: a.transpose(), lambda a: [list(x) for x in zip(*a)])
            run(ctx, 'sum', [(r, c, ba)], lambda a: M.sum(a), lambda a: sum(sum(x) for x in a))
            run(ctx, 'sum0', [(r, c, ba)], lambda a: M.sum(a, axis=0), lambda a: [[sum(col) for col in zip(*a)]])
            run(ctx, 'sum1', [(r, c, ba)], lambda a: M.sum(a, axis=1), lambda a: [[sum(row) for row in a]])
            run(ctx, 'max', [(r, c, ba)], lambda a: M.max(a), lambda a: max(max(x) for x in a))
            run(ctx, 'max0', [(r, c, ba)], lambda a: M.max(a, axis=0), lambda a: [[max(col) for col in zip(*a)]])
            run(ctx, 'max1', [(r, c, ba)], lambda a: M.max(a, axis=1), lambda a: [[max(row) for row in a]])
            run(ctx, 'min', [(r, c, ba)], lambda a: M.min(a), lambda a: min(min(x) for x in a))
            run(ctx, 'min0', [(r, c, ba)], lambda a: M.min(a, axis=0), lambda a: [[min(col) for col in zip(*a)]])
            run(ctx, 'argmax', [(r, c, ba)], lambda a: M.argmax(a), lambda a: flat(a).index(max(flat(a))))
            run(ctx, 'argmax0', [(r, c, ba)], lambda a: M.argmax(a, axis=0),
                lambda a: [[list(col).index(max(col)) for col in zip(*a)]])
            run(ctx, 'argmax1', [(r, c, ba)], lambda a: M.argmax(a, axis=1), lambda a: [[row.index(max(row)) for row in a]])
            run(ctx, 'flatten', [(r, c, ba)], lambda a: a.flatten(), lambda a: [flat(a)])
            run(ctx, 'flattenF', [(r, c, ba)], lambda a: a.flatten(order='F'),
                lambda a: [[a[i][j] for j in range(len(a[0])) for i in range(len(a))]])
            run(ctx, 'reshape', [(r, c, ba)], lambda a: a.reshape(c, r),
                lambda a: [flat(a)[i * r:(i + 1) * r] for i in range(c)])
            run(ctx, 'reshapeF', [(r, c, ba)], lambda a: a.reshape(c, r, order='F'),
                lambda a: (lambda fl: [[fl[i + j * c] for j in range(r)] for i in range(c)])(
                    [a[i][j] for j in range(len(a[0])) for i in range(len(a))]))
            run(ctx, 'reshape-1', [(r, c, ba)], lambda a: a.reshape(-1), lambda a: [flat(a)])
            if r == c:
                run(ctx, 'pow2', [(r, c, min(ba, 4))], lambda a: a ** 2, lambda a: mm(a, a))
                run(ctx, 'pow0', [(r, c, ba)], lambda a: a ** 0, lambda a: [[int(i == j) for j in range(len(a))] for i in range(len(a))])
                run(ctx, 'pow1', [(r, c, ba)], lambda a: a ** 1, lambda a: a)
            run(ctx, 'hstack', [(r, c, ba), (r, c, bb_)], lambda a, b: M.hstack(a, b), lambda a, b: [ra + rb for ra, rb in zip(a, b)])
            run(ctx, 'vstack', [(r, c, ba), (r, c, bb_)], lambda a, b: M.vstack(a, b), lambda a, b: a + b)
            run(ctx, 'concatenate0', [(r, c, ba), (r, c, bb_)], lambda a, b: M.concatenate([a, b], axis=0),
                lambda a, b: [ra + rb for ra, rb in zip(a, b)])
            run(ctx, 'concatenate1', [(r, c, ba), (r, c, bb_)], lambda a, b: M.concatenate([a, b], axis=1), lambda a, b: a + b)
            run(ctx, 'row0', [(r, c, ba)], lambda a: a[0, :], lambda a: [a[0]])
            run(ctx, 'col-1', [(r, c, ba)], lambda a: a[:, -1], lambda a: [[row[-1]] for row in a])
            run(ctx, 'elem', [(r, c, ba)], lambda a: a[-1, 0], lambda a: a[-1][0])
            run(ctx, 'slice', [(r, c, ba)], lambda a: a[0:r, 0:max(1, c - 1)], lambda a: [row[0:max(1, c - 1)] for row in a[0:r]])
            run(ctx, 'reversed', [(r, c, ba)], lambda a: reversed(a), lambda a: [row[::-1] for row in a[::-1]])
            run(ctx, 'scalar-mul', [(r, c, ba), (1, 1, bb_)], lambda a, s: a * s[0, 0], lambda a, s: [[x * s[0][0] for x in row] for row in a])
            run(ctx, 'multiply-fn', [(r, c, ba), (r, c, bb_)], lambda a, b: M.multiply(a, b),
                lambda a, b: [[x * y for x, y in zip(ra, rb)] for ra, rb in zip(a, b)])
            run(ctx, 'roundtrip', [(r, c, ba)], lambda a: M.Matrix(r, c, ba, value=a.to_wirevector()), lambda a: a)
            run(ctx, 'copy', [(r, c, ba)], lambda a: a.copy(), lambda a: a)

            def b_setitem(a, b):
                a2 = a.copy()
                a2[0, 0] = b[0, 0]
                return a2
            run(ctx, 'setitem', [(r, c, ba), (1, 1, ba)], b_setitem, lambda a, b: [[(b[0][0] if (i, j) == (0, 0) else a[i][j])
                                                                                   for j in range(len(a[0]))] for i in range(len(a))])

            def b_put(a, b):
                a2 = a.copy()
                a2.put([0, -1], [b[0, 0], b[0, 0]])
                return a2
            run(ctx, 'put', [(r, c, ba), (1, 1, ba)], b_put,
                lambda a, b, r=r, c=c: (lambda fl: [fl[i * c:(i + 1) * c] for i in range(r)])(
                    [(b[0][0] if k in (0, r * c - 1) else e) for k, e in enumerate([e for row in a for e in row])]))
        if len(ctx.violations) >= 6:
            break
    # helper functions on plain integers
    for _ in range(ctx.n(20, 200)):
        r, c, b = rng.randint(1, 4), rng.randint(1, 4), rng.randint(1, 8)
        vals = [[rng.getrandbits(b) for _ in range(c)] for _ in range(r)]
        x = M.list_to_int(vals, b)
        ctx.evaluations += 1
        if x != pack(vals, b):
            ctx.violation('list_to_int', 'list_to_int(%r, %d) = %d, expected %d' % (vals, b, x, pack(vals, b)), {'kind': 'matrix-helper'})
            break
    ctx.oblige('oracle:Matrix operation = integer-matrix operation mod 2^bits; exact widths for + * @', not ctx.violations,
               '%d operation instances' % len(ctx.distinct))
    return conclude(ctx, rule='every Matrix operation x shapes up to 4x4 x mixed element widths 1..8 x element values '
                    '(exhaustive when all operands total <= 8 bits, else 0/1/max/random); result bits attribute and shape compared '
                    'as well as values; distinct = (operation, shapes)')
