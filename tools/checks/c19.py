"""C19 — rtllib Matrix operations equal integer-matrix arithmetic modulo the result width.

For shapes up to 4x4 and mixed element widths 1..8 every Matrix operation is built on Inputs,
evaluated (FastSimulation of the real netlist) on boundary + random element values (exhaustive for
tiny shapes) and compared with plain integer-matrix arithmetic reduced modulo 2^bits of the result;
for +, * and @ the declared width must hold the exact value when max_bits is not reached.
Proofs: Proofs/Props/C19.lean (element layout in to/from WireVector, reshape/flatten index
arithmetic, width sufficiency inequalities)."""
import itertools
import pyrtl
from pyrtl import Input, Output
from pyrtl.rtllib import matrix as M
from vlib.common import proof_gate, conclude


def pack(v, b):
    x = 0
    for row in v:
        for e in row:
            x = (x << b) | e
    return x


def unpack(x, r, c, b):
    return [[(x >> (b * ((r - 1 - i) * c + (c - 1 - j)))) & ((1 << b) - 1) for j in range(c)] for i in range(r)]


def run(ctx, name, shapes, build, spec, exact_ops=False, scalar_ins=(), note=''):
    """shapes: [(rows, cols, bits)]; build(*mats) -> Matrix or wire; spec(*int matrices) -> int matrix or int"""
    rng = ctx.rng
    pyrtl.reset_working_block()
    mats = []
    for k, (r, c, b) in enumerate(shapes):
        i = Input(r * c * b, 'i%d' % k)
        mats.append(M.Matrix(r, c, b, value=i))
    key = '%s%s%s' % (name, shapes, note)
    try:
        res = build(*mats)
    except Exception as e:  # noqa
        ctx.violation('matrix-raises:' + name, '%s raised %s: %s' % (key, type(e).__name__, str(e)[:160]),
                      {'kind': 'matrix', 'op': name, 'shapes': shapes})
        return
    if isinstance(res, M.Matrix):
        o = Output(len(res), 'o')
        o <<= res.to_wirevector()
        rr, cc, bb = res.rows, res.columns, res.bits
    else:
        res = pyrtl.as_wires(res)
        o = Output(len(res), 'o')
        o <<= res
        rr = cc = 1
        bb = len(res)
    sim = pyrtl.FastSimulation()
    total_bits = sum(r * c * b for r, c, b in shapes)
    if total_bits <= 8:
        combos = [[unpack(x, r, c, b) for (r, c, b), x in zip(shapes, xs)]
                  for xs in itertools.product(*[range(1 << (r * c * b)) for r, c, b in shapes])]
    else:
        combos = []
        for t in range(ctx.n(24, 80)):
            combos.append([[[rng.choice([0, 1, (1 << b) - 1, rng.getrandbits(b)]) for _ in range(c)] for _ in range(r)]
                           for (r, c, b) in shapes])
    for vals in combos:
        sim.step({'i%d' % k: pack(v, b) for k, ((r, c, b), v) in enumerate(zip(shapes, vals))})
        got = sim.inspect('o')
        gm = unpack(got, rr, cc, bb)
        exp = spec(*vals)
        if not isinstance(exp, list):
            exp = [[exp]]
        if len(exp) != rr or len(exp[0]) != cc:
            ctx.violation('matrix-shape:' + name, '%s result shape %dx%d, integer-matrix operation gives %dx%d' % (
                key, rr, cc, len(exp), len(exp[0])), {'kind': 'matrix', 'op': name, 'shapes': shapes})
            return
        em = [[e % (1 << bb) for e in row] for row in exp]
        ctx.evaluations += 1
        if gm != em:
            ctx.violation('matrix-value:' + name, '%s on %r gives %r (bits=%d), integer-matrix arithmetic mod 2^bits gives %r' % (
                key, vals, gm, bb, em), {'kind': 'matrix', 'op': name, 'shapes': shapes, 'values': vals, 'got': gm, 'want': em, 'bits': bb})
            return
        if exact_ops and any(e >= (1 << bb) for row in exp for e in row):
            ctx.violation('matrix-width:' + name, '%s: declared width %d cannot hold the exact result %r (max_bits not reached)' % (
                key, bb, exp), {'kind': 'matrix', 'op': name, 'shapes': shapes, 'values': vals, 'bits': bb})
            return
    ctx.distinct.add(key)
    ctx.count('operation', name)
    ctx.sample({'op': name, 'shapes': shapes, 'cases': len(combos), 'result_bits': bb}, limit=8)


def history(ctx, k):
    """A random sequence of mutating operations on one Matrix object (in-place arithmetic, element and
    width assignment) interleaved with observations (to_wirevector, copy, element reads); every
    observation must equal the integer-matrix history evaluated on the same inputs."""
    import operator
    rng = ctx.rng
    r, c = rng.choice([(1, 1), (1, 2), (2, 1), (2, 2), (2, 3), (3, 2), (3, 3)])
    ba, bb_ = rng.randint(2, 8), rng.randint(1, 4)
    pyrtl.reset_working_block()
    ia, ib, iq, isc = Input(r * c * ba, 'ia'), Input(r * c * bb_, 'ib'), Input(c * c * 2, 'iq'), Input(8, 'isc')
    a = M.Matrix(r, c, ba, value=ia)
    b = M.Matrix(r, c, bb_, value=ib)
    q = M.Matrix(c, c, 2, value=iq)
    ops = []            # (name, fn(int matrix, env) -> int matrix, bits after, exact?)
    probes = []         # (output name, index into ops (number of ops applied), kind, rows, cols, bits)
    trunc = lambda m_, n: [[e % (1 << n) for e in row] for row in m_]   # noqa

    def probe(kind, obj=None):
        nm = 'p%d' % len(probes)
        obj = a if obj is None else obj
        try:
            if kind == 'copy':
                w = obj.copy().to_wirevector()
            elif kind == 'elem':
                w = pyrtl.as_wires(obj[r - 1, 0], bitwidth=obj.bits)
            elif kind == 'transpose':
                w = obj.transpose().to_wirevector()
            else:      # 'wire', and 'self': the object an in-place operator was applied to
                w = obj.to_wirevector()
        except Exception as e:  # noqa
            return 'observation %s raised %s: %s' % (kind, type(e).__name__, str(e)[:120])
        o = Output(len(w), nm)
        o <<= w
        probes.append((nm, len(ops), kind, obj.rows, obj.columns, obj.bits))
        return None

    seq = []
    err = None
    err = probe(rng.choice(['wire', 'copy', 'elem', 'transpose']))      # an observation before any mutation
    nops = rng.randint(1, 4)
    for _ in range(nops):
        if err:
            break
        choices = ['iadd', 'isub', 'imul', 'imatmul', 'setitem', 'bits-narrow', 'bits-widen', 'put']
        if r == c:
            choices.append('ipow')
        op = rng.choice(choices)
        if seq and seq[-1] == 'bits-narrow' and rng.random() < 0.6:
            op = 'bits-widen'          # narrowing must really drop the bits: widening again may not bring them back
        prev = a
        try:
            if op == 'iadd':
                a = operator.iadd(a, b)
                fn, exact = (lambda m_, e: [[x + y for x, y in zip(ra, rb)] for ra, rb in zip(m_, e['b'])]), True
            elif op == 'isub':
                a = operator.isub(a, b)
                fn, exact = (lambda m_, e: [[max(x - y, 0) for x, y in zip(ra, rb)] for ra, rb in zip(m_, e['b'])]), False
            elif op == 'imul':
                a = operator.imul(a, b)
                fn, exact = (lambda m_, e: [[x * y for x, y in zip(ra, rb)] for ra, rb in zip(m_, e['b'])]), True
            elif op == 'imatmul':
                a = operator.imatmul(a, q)
                fn, exact = (lambda m_, e: mm(m_, e['q'])), True
            elif op == 'ipow':
                a = operator.ipow(a, 2)
                fn, exact = (lambda m_, e: mm(m_, m_)), True
            elif op == 'setitem':
                i, j = rng.randrange(r), rng.randrange(c)
                a[i, j] = isc
                fn = (lambda m_, e, i=i, j=j: [[(e['s'] if (x, y) == (i, j) else m_[x][y]) for y in range(len(m_[0]))]
                                               for x in range(len(m_))])
                exact = False
            elif op == 'put':
                a.put([0, -1], [isc, isc])
                fn = (lambda m_, e: (lambda fl: [fl[x * len(m_[0]):(x + 1) * len(m_[0])] for x in range(len(m_))])(
                    [(e['s'] if k_ in (0, len(m_) * len(m_[0]) - 1) else v) for k_, v in enumerate([v for row in m_ for v in row])]))
                exact = False
            elif op == 'bits-narrow':
                a.bits = rng.randint(1, max(1, a.bits - 1))
                fn, exact = (lambda m_, e: m_), False
            else:
                a.bits = min(a.bits + rng.randint(1, 3), a.max_bits or 64)     # widths beyond max_bits are outside the documented use
                fn, exact = (lambda m_, e: m_), False
        except Exception as e:  # noqa
            err = '%s raised %s: %s' % (op, type(e).__name__, str(e)[:120])
            seq.append(op)
            break
        seq.append(op)
        if (a.rows, a.columns) != (r, c):
            err = '%s changed the shape to %dx%d' % (op, a.rows, a.columns)
            break
        ops.append((op, fn, a.bits, exact))
        if prev is not a:
            if prev.bits != a.bits:
                err = 'after in-place %s the object itself has bits=%d, the returned matrix bits=%d' % (op, prev.bits, a.bits)
                break
            if rng.random() < 0.5:
                err = probe('self', prev)
        for kind in rng.sample(['wire', 'copy', 'elem', 'transpose'], rng.randint(0, 2)):
            err = err or probe(kind)
    if not err:
        err = probe('wire')
    key = 'history%s' % (seq,)
    replay = {'kind': 'matrix-history', 'shape': [r, c], 'bits': [ba, bb_], 'ops': seq}
    if err:
        ctx.violation('matrix-history-raises:' + (seq[-1] if seq else 'observe'), 'Matrix %dx%d (bits %d) history %s: %s' % (r, c, ba, seq, err), replay)
        return
    sim = pyrtl.FastSimulation()
    for t in range(ctx.n(12, 40)):
        av = [[rng.choice([0, 1, (1 << ba) - 1, rng.getrandbits(ba)]) for _ in range(c)] for _ in range(r)]
        bv = [[rng.choice([0, 1, (1 << bb_) - 1, rng.getrandbits(bb_)]) for _ in range(c)] for _ in range(r)]
        qv = [[rng.getrandbits(2) for _ in range(c)] for _ in range(c)]
        sv = rng.getrandbits(8)
        sim.step({'ia': pack(av, ba), 'ib': pack(bv, bb_), 'iq': pack(qv, 2), 'isc': sv})
        states = [av]
        cur = av
        for (op, fn, bits_after, exact) in ops:
            nxt = fn(cur, {'b': bv, 'q': qv, 's': sv})
            if exact and any(e >= (1 << bits_after) for row in nxt for e in row):
                ctx.violation('matrix-width:' + op, 'history %s on %r: width %d after %s cannot hold the exact result %r' % (
                    seq, av, bits_after, op, nxt), dict(replay, a=av, b=bv, q=qv, s=sv))
                return
            cur = trunc(nxt, bits_after)
            states.append(cur)
        ctx.evaluations += 1
        for (nm, idx, kind, pr, pc, pb) in probes:
            want = states[idx]
            if kind == 'elem':
                got, exp = sim.inspect(nm), want[r - 1][0] % (1 << pb)
            elif kind == 'transpose':
                got, exp = unpack(sim.inspect(nm), pc, pr, pb), trunc([list(x) for x in zip(*want)], pb)
            else:
                got, exp = unpack(sim.inspect(nm), pr, pc, pb), trunc(want, pb)
            if got != exp:
                ctx.violation('matrix-history:' + (seq[idx - 1] if idx else 'observe'),
                              'Matrix history %s on a=%r b=%r: observation %s after %d operation(s) gives %r, the integer-matrix '
                              'history gives %r' % (seq, av, bv, kind, idx, got, exp),
                              dict(replay, a=av, b=bv, q=qv, s=sv, observation=kind, after=idx, got=got, want=exp))
                return
    ctx.distinct.add(key)
    ctx.count('operation', 'history')
    for op in seq:
        ctx.count('history-op', op)


def mm(a, b):
    return [[sum(a[i][k] * b[k][j] for k in range(len(b))) for j in range(len(b[0]))] for i in range(len(a))]


def cell_index_tie(ctx):
    """tie of Model/Lib/MatrixIndex.lean (`cellSlice`, theorems C19.cell_slice_single / cell_slice_refused): the cell that
    `m[k, j] = v` and `m[i, k] = v` write, for every integer k on and beyond both ends of the axis"""
    bad = n_cases = 0
    for n in range(1, ctx.n(5, 8)):
        ks = list(range(-n - 2, n + 2))
        resp = ctx.driver.ask({'cmd': 'conv', 'fn': 'matrix_cell_slice', 'cases': [[n, k, 0] for k in ks]})
        if not resp.get('ok'):
            raise RuntimeError('matrix_cell_slice: %s' % resp)
        for axis in (0, 1):
            for k, want in zip(ks, resp['vals']):
                pyrtl.reset_working_block()
                m = M.Matrix(n if axis == 0 else 2, n if axis == 1 else 2, 4, value=[[1] * (n if axis == 1 else 2)] * (n if axis == 0 else 2))
                before = [[m[i, j] for j in range(m.columns)] for i in range(m.rows)]
                key = (k, 1) if axis == 0 else (1, k)
                try:
                    m[key] = pyrtl.Const(9, 4)
                    after = [[m[i, j] for j in range(m.columns)] for i in range(m.rows)]
                    changed = [(i, j) for i in range(m.rows) for j in range(m.columns) if after[i][j] is not before[i][j]]
                    got = ('cells', changed)
                except pyrtl.PyrtlError:
                    got = ('refused', None)
                exp = ('refused', None) if want is None else ('cells', [(want[0], 1) if axis == 0 else (1, want[0])])
                if want is not None and want[1] != want[0] + 1:
                    exp = ('model-slice', want)
                n_cases += 1
                ctx.evaluations += 1
                if got != exp:
                    bad += 1
                    ctx.violation('matrix-cell-index', 'm[%r] = value on a matrix with %d %s: the code %s, the index denotes %s' % (
                        key, n, 'rows' if axis == 0 else 'columns', 'refuses it' if got[0] == 'refused' else 'writes cells %r' % (got[1],),
                        'no cell' if exp[0] == 'refused' else 'cell %r' % (exp[1],)), {'kind': 'cell-index', 'n': n, 'axis': axis, 'k': k})
                    if bad >= 3:
                        break
    ctx.oblige('tie:Matrix.__setitem__ integer index = Lean MatrixIndex.cellSlice', bad == 0, '%d/%d (axis length, index) cases differ' % (bad, n_cases))


def main(ctx):
    proofs_ok = proof_gate(ctx, gen_modules=[])
    cell_index_tie(ctx)
    rng = ctx.rng
    shapes = [(1, 1), (1, 2), (2, 1), (2, 2), (2, 3), (3, 2), (3, 3), (1, 4), (4, 1), (4, 4)]
    nshapes = ctx.n(6, 10)
    for (r, c) in rng.sample(shapes, nshapes):
        for _w in range(ctx.n(2, 5)):
            ba, bb_ = rng.randint(1, 8), rng.randint(1, 8)
            flat = lambda a: [e for row in a for e in row]   # noqa
            run(ctx, 'add', [(r, c, ba), (r, c, bb_)], lambda a, b: a + b,
                lambda a, b: [[x + y for x, y in zip(ra, rb)] for ra, rb in zip(a, b)], exact_ops=True)
            run(ctx, 'sub', [(r, c, ba), (r, c, bb_)], lambda a, b: a - b,
                lambda a, b: [[max(x - y, 0) for x, y in zip(ra, rb)] for ra, rb in zip(a, b)])
            run(ctx, 'mul', [(r, c, ba), (r, c, bb_)], lambda a, b: a * b,
                lambda a, b: [[x * y for x, y in zip(ra, rb)] for ra, rb in zip(a, b)], exact_ops=True)
            run(ctx, 'matmul', [(r, c, ba), (c, r, bb_)], lambda a, b: a @ b, mm, exact_ops=True)
            def dot_spec(a, b):
                ra, ca, rb, cb = len(a), len(a[0]), len(b), len(b[0])
                if (ra == 1 and ca == 1) or (rb == 1 and cb == 1):
                    if ra == 1 and ca == 1 and rb == 1 and cb == 1:
                        return [[a[0][0] * b[0][0]]]
                    return None
                if (ra == 1 or ca == 1) and (rb == 1 or cb == 1):
                    fa = [e for row in a for e in row]
                    fb = [e for row in b for e in row]
                    return sum(x * y for x, y in zip(fa, fb))
                return mm(a, b)
            if not ((r == 1 and c == 1)):
                run(ctx, 'dot', [(r, c, ba), (c, r, bb_)], lambda a, b: M.dot(a, b), dot_spec)
            if c >= 2:
                # a row vector times a matrix with several columns, a matrix times a column vector
                run(ctx, 'dot-rowvec-matrix', [(1, c, ba), (c, 2, bb_)], lambda a, b: M.dot(a, b), mm, exact_ops=True)
                run(ctx, 'dot-matrix-colvec', [(2, c, ba), (c, 1, bb_)], lambda a, b: M.dot(a, b), mm, exact_ops=True)
            run(ctx, 'transpose', [(r, c, ba)], lambda a: a.transpose(), lambda a: [list(x) for x in zip(*a)])
            run(ctx, 'sum', [(r, c, ba)], lambda a: M.sum(a), lambda a: sum(sum(x) for x in a))
            run(ctx, 'sum0', [(r, c, ba)], lambda a: M.sum(a, axis=0), lambda a: [[sum(col) for col in zip(*a)]])
            run(ctx, 'sum1', [(r, c, ba)], lambda a: M.sum(a, axis=1), lambda a: [[sum(row) for row in a]])
            run(ctx, 'max', [(r, c, ba)], lambda a: M.max(a), lambda a: max(max(x) for x in a))
            run(ctx, 'max0', [(r, c, ba)], lambda a: M.max(a, axis=0), lambda a: [[max(col) for col in zip(*a)]])
            run(ctx, 'max1', [(r, c, ba)], lambda a: M.max(a, axis=1), lambda a: [[max(row) for row in a]])
            run(ctx, 'min', [(r, c, ba)], lambda a: M.min(a), lambda a: min(min(x) for x in a))
            run(ctx, 'min0', [(r, c, ba)], lambda a: M.min(a, axis=0), lambda a: [[min(col) for col in zip(*a)]])
            run(ctx, 'argmax', [(r, c, ba)], lambda a: M.argmax(a), lambda a: flat(a).index(max(flat(a))))
            run(ctx, 'argmax0', [(r, c, ba)], lambda a: M.argmax(a, axis=0),
                lambda a: [[list(col).index(max(col)) for col in zip(*a)]])
            run(ctx, 'argmax1', [(r, c, ba)], lambda a: M.argmax(a, axis=1), lambda a: [[row.index(max(row)) for row in a]])
            # reductions with an explicit result width, narrower or wider than the elements (the result is the true
            # reduction modulo 2^bits)
            for nb in sorted({1, max(1, ba - 1), ba + 2}):
                run(ctx, 'min0-bits', [(r, c, ba)], lambda a, nb=nb: M.min(a, axis=0, bits=nb), lambda a: [[min(col) for col in zip(*a)]])
                run(ctx, 'min1-bits', [(r, c, ba)], lambda a, nb=nb: M.min(a, axis=1, bits=nb), lambda a: [[min(row) for row in a]])
                run(ctx, 'max0-bits', [(r, c, ba)], lambda a, nb=nb: M.max(a, axis=0, bits=nb), lambda a: [[max(col) for col in zip(*a)]])
                run(ctx, 'max1-bits', [(r, c, ba)], lambda a, nb=nb: M.max(a, axis=1, bits=nb), lambda a: [[max(row) for row in a]])
                run(ctx, 'min-bits', [(r, c, ba)], lambda a, nb=nb: M.min(a, bits=nb), lambda a: min(min(x) for x in a))
                run(ctx, 'sum0-bits', [(r, c, ba)], lambda a, nb=nb: M.sum(a, axis=0, bits=nb), lambda a: [[sum(col) for col in zip(*a)]])
                run(ctx, 'sum-bits', [(r, c, ba)], lambda a, nb=nb: M.sum(a, bits=nb), lambda a: sum(sum(x) for x in a))
            run(ctx, 'flatten', [(r, c, ba)], lambda a: a.flatten(), lambda a: [flat(a)])
            run(ctx, 'flattenF', [(r, c, ba)], lambda a: a.flatten(order='F'),
                lambda a: [[a[i][j] for j in range(len(a[0])) for i in range(len(a))]])
            run(ctx, 'reshape', [(r, c, ba)], lambda a: a.reshape(c, r),
                lambda a: [flat(a)[i * r:(i + 1) * r] for i in range(c)])
            run(ctx, 'reshapeF', [(r, c, ba)], lambda a: a.reshape(c, r, order='F'),
                lambda a: (lambda fl: [[fl[i + j * c] for j in range(r)] for i in range(c)])(
                    [a[i][j] for j in range(len(a[0])) for i in range(len(a))]))
            run(ctx, 'reshape-1', [(r, c, ba)], lambda a: a.reshape(-1), lambda a: [flat(a)])
            if r == c:
                run(ctx, 'pow2', [(r, c, min(ba, 4))], lambda a: a ** 2, lambda a: mm(a, a))
                run(ctx, 'pow0', [(r, c, ba)], lambda a: a ** 0, lambda a: [[int(i == j) for j in range(len(a))] for i in range(len(a))])
                run(ctx, 'pow1', [(r, c, ba)], lambda a: a ** 1, lambda a: a)
                run(ctx, 'pow3', [(r, c, min(ba, 3))], lambda a: a ** 3, lambda a: mm(mm(a, a), a))
                if r <= 2:
                    run(ctx, 'pow4', [(r, c, min(ba, 2))], lambda a: a ** 4, lambda a: mm(mm(mm(a, a), a), a))
            run(ctx, 'hstack', [(r, c, ba), (r, c, bb_)], lambda a, b: M.hstack(a, b), lambda a, b: [ra + rb for ra, rb in zip(a, b)])
            run(ctx, 'vstack', [(r, c, ba), (r, c, bb_)], lambda a, b: M.vstack(a, b), lambda a, b: a + b)
            # the same Matrix object stacked more than once, three operands
            run(ctx, 'hstack-repeated-operand', [(r, c, ba), (r, 1, bb_)], lambda a, b: M.hstack(a, b, a),
                lambda a, b: [ra + rb + ra for ra, rb in zip(a, b)])
            run(ctx, 'vstack-repeated-operand', [(r, c, ba), (1, c, bb_)], lambda a, b: M.vstack(a, b, a), lambda a, b: a + b + a)
            run(ctx, 'concatenate-repeated-operand', [(r, c, ba)], lambda a: M.concatenate((a, a), axis=0),
                lambda a: [ra + ra for ra in a])
            run(ctx, 'concatenate0', [(r, c, ba), (r, c, bb_)], lambda a, b: M.concatenate([a, b], axis=0),
                lambda a, b: [ra + rb for ra, rb in zip(a, b)])
            run(ctx, 'concatenate1', [(r, c, ba), (r, c, bb_)], lambda a, b: M.concatenate([a, b], axis=1), lambda a, b: a + b)
            run(ctx, 'row0', [(r, c, ba)], lambda a: a[0, :], lambda a: [a[0]])
            run(ctx, 'col-1', [(r, c, ba)], lambda a: a[:, -1], lambda a: [[row[-1]] for row in a])
            run(ctx, 'elem', [(r, c, ba)], lambda a: a[-1, 0], lambda a: a[-1][0])
            run(ctx, 'slice', [(r, c, ba)], lambda a: a[0:r, 0:max(1, c - 1)], lambda a: [row[0:max(1, c - 1)] for row in a[0:r]])
            run(ctx, 'reversed', [(r, c, ba)], lambda a: reversed(a), lambda a: [row[::-1] for row in a[::-1]])
            run(ctx, 'scalar-mul', [(r, c, ba), (1, 1, bb_)], lambda a, s: a * s[0, 0], lambda a, s: [[x * s[0][0] for x in row] for row in a])
            run(ctx, 'multiply-fn', [(r, c, ba), (r, c, bb_)], lambda a, b: M.multiply(a, b),
                lambda a, b: [[x * y for x, y in zip(ra, rb)] for ra, rb in zip(a, b)])
            run(ctx, 'roundtrip', [(r, c, ba)], lambda a: M.Matrix(r, c, ba, value=a.to_wirevector()), lambda a: a)
            run(ctx, 'copy', [(r, c, ba)], lambda a: a.copy(), lambda a: a)
            # a function that returns a matrix returns a new one: writing into the result leaves the operand alone
            makers = [('hstack1', lambda a: M.hstack(a)), ('vstack1', lambda a: M.vstack(a)),
                      ('concatenate1-axis0', lambda a: M.concatenate([a], axis=0)),
                      ('concatenate1-axis1', lambda a: M.concatenate([a], axis=1)),
                      ('copy', lambda a: a.copy()), ('full-slice', lambda a: a[0:r, 0:c]),
                      ('reshape-same', lambda a: a.reshape(r, c))]
            for mname, mk in rng.sample(makers, 3):
                def b_fresh(a, mk=mk):
                    s_ = mk(a)
                    if isinstance(s_, M.Matrix):
                        s_[0, 0] = pyrtl.Const(1, 1)
                        s_.put([-1], [pyrtl.Const(0, 1)])
                        s_ += s_
                    return a
                run(ctx, 'operand-after-writing-into:' + mname, [(r, c, ba)], b_fresh, lambda a: a)

            def b_setitem(a, b):
                a2 = a.copy()
                a2[0, 0] = b[0, 0]
                return a2
            run(ctx, 'setitem', [(r, c, ba), (1, 1, ba)], b_setitem, lambda a, b: [[(b[0][0] if (i, j) == (0, 0) else a[i][j])
                                                                                   for j in range(len(a[0]))] for i in range(len(a))])

            # the last row / column through its negative index
            def b_setitem_last(a, b):
                a2 = a.copy()
                a2[-1, -1] = b[0, 0]
                return a2
            run(ctx, 'setitem-negative-index', [(r, c, ba), (1, 1, ba)], b_setitem_last,
                lambda a, b: [[(b[0][0] if (i, j) == (len(a) - 1, len(a[0]) - 1) else a[i][j]) for j in range(len(a[0]))] for i in range(len(a))])

            # a single cell takes a 1x1 Matrix as well (the result of a row @ column product, of max(axis=...) ...)
            ci, cj = rng.randrange(r), rng.randrange(c)
            for ck in ((ci, cj), rng.choice([(ci - r, cj), (ci, cj - c), (ci - r, cj - c)])):
                def b_setitem_m(a, b, ck=ck):
                    a2 = a.copy()
                    a2[ck[0], ck[1]] = b
                    return a2
                run(ctx, 'setitem-1x1-matrix', [(r, c, ba), (1, 1, ba)], b_setitem_m,
                    lambda a, b, ci=ci, cj=cj: [[(b[0][0] if (i, j) == (ci, cj) else a[i][j]) for j in range(len(a[0]))] for i in range(len(a))])

            def b_put(a, b):
                a2 = a.copy()
                a2.put([0, -1], [b[0, 0], b[0, 0]])
                return a2
            run(ctx, 'put', [(r, c, ba), (1, 1, ba)], b_put,
                lambda a, b, r=r, c=c: (lambda fl: [fl[i * c:(i + 1) * c] for i in range(r)])(
                    [(b[0][0] if k in (0, r * c - 1) else e) for k, e in enumerate([e for row in a for e in row])]))
            # put() with every mode: indices on and beyond both ends of the flattened matrix (count, -count, -count-1 ...),
            # fewer values than indices (the last value repeats), later indices overriding earlier ones
            cnt = r * c
            for mode in ('wrap', 'clip', 'raise'):
                pool = [0, cnt - 1, cnt, cnt + 1, -1, -cnt, -cnt - 1, 2 * cnt, 2 * cnt + 1, -2 * cnt, rng.randint(-3 * cnt, 3 * cnt)]
                inds = [rng.choice(pool) for _ in range(rng.randint(1, 3))]
                if mode == 'raise':
                    inds = [i for i in inds if -cnt <= i < cnt] or [0]
                nv = rng.randint(1, len(inds))

                def put_spec(a, b, inds=inds, nv=nv, mode=mode, cnt=cnt, c=c):
                    fl = [e for row in a for e in row]
                    for k_, ix in enumerate(inds):
                        if ix < 0:
                            ix = cnt + ix
                        if ix < 0 or ix >= cnt:
                            ix = ix % cnt if mode == 'wrap' else (0 if ix < 0 else cnt - 1)
                        fl[ix] = b[0][min(k_, nv - 1)]
                    return [fl[i * c:(i + 1) * c] for i in range(len(a))]

                def b_putm(a, b, inds=inds, nv=nv, mode=mode):
                    a2 = a.copy()
                    a2.put(list(inds), [b[0, i] for i in range(nv)], mode=mode)
                    return a2
                run(ctx, 'put-' + mode, [(r, c, ba), (1, nv, ba)], b_putm, put_spec, note=' indices %r, %d value(s)' % (inds, nv))
        if len(ctx.violations) >= 6:
            break
    for k in ctx.loop(ctx.n(60, 600)):
        history(ctx, k)
        if len(ctx.violations) >= 6:
            break
    # helper functions on plain integers
    for _ in range(ctx.n(20, 200)):
        r, c, b = rng.randint(1, 4), rng.randint(1, 4), rng.randint(1, 8)
        vals = [[rng.getrandbits(b) for _ in range(c)] for _ in range(r)]
        x = M.list_to_int(vals, b)
        ctx.evaluations += 1
        if x != pack(vals, b):
            ctx.violation('list_to_int', 'list_to_int(%r, %d) = %d, expected %d' % (vals, b, x, pack(vals, b)), {'kind': 'matrix-helper'})
            break
    ctx.oblige('oracle:Matrix operation = integer-matrix operation mod 2^bits; exact widths for + * @', not ctx.violations,
               '%d operation instances' % len(ctx.distinct))
    return conclude(ctx, rule='every Matrix operation x shapes up to 4x4 x mixed element widths 1..8 x element values '
                    '(exhaustive when all operands total <= 8 bits, else 0/1/max/random); result bits attribute and shape compared '
                    'as well as values; plus random histories of in-place operations, element/width assignment and observations on one '
                    'Matrix object; distinct = (operation, shapes) or the history')
