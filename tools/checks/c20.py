"""C20 — exports are deterministic and read-only with respect to behaviour.

(i) the same design built in separate processes under different PYTHONHASHSEED values and
allocation-noise patterns (which permute every identity-hashed set of wires/nets) must give
byte-identical output_to_verilog / output_verilog_testbench / print_vcd / print_trace text and
identical traces; (ii) export, visualisation and analysis calls must not change the block's
behaviour (Spec.run in Lean before/after) nor its structure (output_to_firrtl may rewrite, behaviour
preserved).  Proofs: Proofs/Props/C20.lean (sorting by an injective key is permutation-invariant;
evaluation is order-independent)."""
import contextlib
import io
import json
import os
import subprocess
import sys
import pyrtl
from vlib import gen, simrun, passlib
from vlib.common import proof_gate, conclude, VERIF
from vlib.serialize import Ser
from checks.c11 import fingerprint, fp_diff

CHILD = os.path.join(VERIF, 'tools', 'checks', 'c20_child.py')


def run_child(seed, hashseed, noise, kind):
    env = dict(os.environ)
    env['PYTHONHASHSEED'] = str(hashseed)
    env.pop('PYRTL_VERIF_ITER_SEED', None)
    p = subprocess.run([sys.executable, CHILD, str(seed), str(noise), kind], env=env, stdout=subprocess.PIPE,
                       stderr=subprocess.PIPE, text=True, timeout=300)
    if p.returncode != 0:
        raise RuntimeError('child failed: %s' % p.stderr[-400:])
    return json.loads(p.stdout.strip().split('\n')[-1])


def determinism(ctx):
    nseeds = ctx.n(16, 64)
    nvar = ctx.n(5, 24)
    orders_seen = 0
    for k in range(nseeds):
        kind = ('shared-enable', 'bench', 'random', 'names', 'same-name-mems', 'names+copy', 'blif', 'random+copy', 'same-name-mems+copy', 'bench')[k % 10]
        seed = ctx.rng.randrange(1 << 30)
        base = run_child(seed, 0, 0, kind)
        if base.get('skip'):
            ctx.count('skipped', base['skip'])
            continue
        orders = {base['_order']}
        for v in range(1, nvar):
            hs = ctx.rng.randrange(1, 1 << 20)
            noise = ctx.rng.randrange(1, 1 << 20) if v % 2 else 0
            other = run_child(seed, hs, noise, kind)
            if other.get('skip'):
                continue
            orders.add(other['_order'])
            ctx.evaluations += 1
            for key in base:
                if key.startswith('_'):
                    continue
                if base[key] != other[key]:
                    a, b = base[key], other[key]
                    detail = ''
                    if isinstance(a, str):
                        la, lb = a.split('\n'), b.split('\n')
                        j = next((i for i in range(min(len(la), len(lb))) if la[i] != lb[i]), min(len(la), len(lb)))
                        detail = ' first differing line %d: %r vs %r' % (j, la[j] if j < len(la) else None, lb[j] if j < len(lb) else None)
                    ctx.violation('nondeterministic:' + key.split(':')[0],
                                  '%s differs between two builds of the same design (%s, seed %d; PYTHONHASHSEED 0/noise 0 vs '
                                  'PYTHONHASHSEED %d/noise %d).%s' % (key, kind, seed, hs, noise, detail),
                                  {'kind': 'determinism', 'design_kind': kind, 'seed': seed, 'hashseed': hs, 'noise': noise, 'what': key,
                                   'rerun': 'PYTHONHASHSEED=%d %s %s %d %d %s' % (hs, sys.executable, CHILD, seed, noise, kind)})
                    break
        orders_seen += len(orders)
        ctx.count('distinct-set-orders-per-design', len(orders))
        ctx.case(('det', kind, seed), nontrivial=len(orders) > 1)
        ctx.sample({'design_kind': kind, 'seed': seed, 'variants': nvar, 'distinct_set_orders': len(orders)})
        if len(ctx.violations) >= 4:
            break
    return orders_seen


READERS = {
    'output_to_verilog': lambda b: pyrtl.output_to_verilog(io.StringIO(), block=b),
    'output_to_trivialgraph': lambda b: pyrtl.output_to_trivialgraph(io.StringIO(), block=b),
    'output_to_graphviz': lambda b: pyrtl.output_to_graphviz(io.StringIO(), block=b),
    'block_to_graphviz_string': lambda b: pyrtl.block_to_graphviz_string(b),
    'net_graph': lambda b: pyrtl.net_graph(b),
    'TimingAnalysis': lambda b: pyrtl.TimingAnalysis(block=b).critical_path(print_cp=False),
    'area_estimation': lambda b: pyrtl.area_estimation(block=b),
    'paths': lambda b: pyrtl.paths(block=b),
    'str(block)': lambda b: str(b),
    'sanity_check': lambda b: b.sanity_check(),
    'Simulation+testbench': None,
}


def read_only(ctx):
    n = ctx.n(25, 400)
    for k in ctx.loop(n):
        rng = ctx.rng
        d = gen.rand_design(rng, profile='small', nops=rng.randint(3, 10), raw=False, nroms=rng.choice([0, 1, 2, 2]),
                            ops=[o for o in gen.OPS_ALL if o != 'nand'])
        blk = d.block
        # selects whose bit list is not ascending (a reversed slice, a swizzle, a repeated bit): the passes output_to_firrtl
        # runs in place must keep the order of the list
        srcs_ = sorted((w for w in blk.wirevector_subset((pyrtl.Input, pyrtl.Register)) if len(w) >= 2), key=lambda w: w.name)
        if srcs_:
            with pyrtl.set_working_block(blk, no_sanity_check=True):
                w_ = rng.choice(srcs_)
                idx_ = list(range(len(w_)))[::-1] if k % 2 else [rng.randrange(len(w_)) for _ in range(rng.randint(2, len(w_) + 1))]
                if idx_ == sorted(idx_):
                    idx_ = idx_[::-1] if idx_ != idx_[::-1] else list(range(len(w_)))[::-1]
                if k % 4 >= 2:
                    idx_ = list(range(len(w_)))[::-1]
                o_ = pyrtl.Output(len(idx_), 'verif_swz')
                if k % 4 < 2:
                    t_ = pyrtl.WireVector(len(idx_))
                    blk.add_net(pyrtl.LogicNet('s', tuple(idx_), (w_,), (t_,)))
                    o_ <<= t_
                else:
                    o_ <<= w_[::-1]
                d.outputs.append(o_)
            ctx.count('non-ascending-select', 'added')
        # every third design reads a ROM (list or function data) if the generator gave it none
        if k % 3 == 0 and srcs_ and not any(isinstance(n_.op_param[1], pyrtl.RomBlock) for n_ in blk.logic_subset('m')):
            with pyrtl.set_working_block(blk, no_sanity_check=True):
                a_ = rng.choice(srcs_)
                aw_ = min(len(a_), 3)
                mul_ = rng.randrange(1, 16, 2)
                rom_ = pyrtl.RomBlock(4, aw_, [rng.getrandbits(4) for _ in range(1 << aw_)] if k % 2 else (lambda x, mul_=mul_: (x * mul_ + 3) & 15),
                                      name='verif_rom', asynchronous=True)
                ro_ = pyrtl.Output(4, 'verif_rom_out')
                ro_ <<= rom_[a_[0:aw_]]
                d.outputs.append(ro_)
            ctx.count('rom-added', 'list' if k % 2 else 'function')
        steps = gen.rand_stimulus(rng, d, 4)
        _, memmap, _ = gen.rand_init(rng, d, with_default=False)
        memmap_by_id = {m.id: mm for m, mm in memmap.items()}
        outs = sorted(o.name for o in d.outputs)
        base, bresp, _ = passlib.spec_trace(ctx, blk, steps, {}, memmap_by_id, watch=outs)
        if base is None or bresp.get('romfault'):
            continue
        ser = Ser(blk)
        replay = {'kind': 'design', 'block': ser.data, 'steps': steps}
        damaged = False
        for name, fn in READERS.items():
            fp0 = fingerprint(blk)
            try:
                with contextlib.redirect_stdout(io.StringIO()):
                    if fn is None:
                        sim = pyrtl.Simulation(block=blk)
                        for s in steps:
                            sim.step(dict(s))
                        pyrtl.output_verilog_testbench(io.StringIO(), sim.tracer, block=blk)
                        sim.tracer.print_vcd(io.StringIO())
                        sim.tracer.render_trace(file=io.StringIO())
                    else:
                        with pyrtl.set_working_block(blk, no_sanity_check=True):
                            fn(blk)
            except Exception as e:  # noqa
                ctx.count('reader-raised', '%s:%s' % (name, type(e).__name__))
                continue
            dif = fp_diff(fp0, fingerprint(blk))
            ctx.evaluations += 1
            if dif:
                ctx.violation('modified-by:' + name, '%s modified the block it read: %s' % (name, dif), dict(replay, call=name))
                damaged = True
                break
            got, _, _ = passlib.spec_trace(ctx, blk, steps, {}, memmap_by_id, watch=outs)
            if got != base:
                ctx.violation('behaviour-changed-by:' + name, '%s changed the behaviour of the block it read' % name, dict(replay, call=name))
                damaged = True
                break
        if damaged:
            if len(ctx.violations) >= 4:
                break
            continue       # the block is no longer the design that was generated: nothing further can be decided on it
        # simulating reads the block and leaves nothing behind, in the block or anywhere else: the same simulator class built
        # again with its default arguments gives the same traces
        for simcls in (pyrtl.Simulation, pyrtl.FastSimulation):
            try:
                runs = []
                for rep_ in range(2):
                    sim = simcls(block=blk, tracer=pyrtl.SimulationTrace(block=blk))
                    for s_ in steps:
                        sim.step(dict(s_))
                    runs.append({o: list(sim.tracer.trace[o]) for o in outs})
                ctx.evaluations += 1
            except pyrtl.PyrtlError:
                ctx.count('reader-raised', simcls.__name__ + '-twice:PyrtlError')
                continue
            if runs[0] != runs[1]:
                o_ = next(o for o in outs if runs[0][o] != runs[1][o])
                ctx.violation('simulation-leaves-state:' + simcls.__name__, 'two %s objects built one after the other on the same block with default '
                              'arguments and given the same inputs trace Output %s as %r and %r' % (simcls.__name__, o_, runs[0][o_], runs[1][o_]),
                              dict(replay, call=simcls.__name__ + ' twice'))
                break
        # the block has been exported above; the user now extends it and exports again: the text is that of the design as
        # it is now (the same text a fresh copy of the block gives), whatever was exported before
        try:
            b_ext = passlib.private_copy(blk)
            with contextlib.redirect_stdout(io.StringIO()):
                pyrtl.output_to_verilog(io.StringIO(), block=b_ext)
                with pyrtl.set_working_block(b_ext, no_sanity_check=True):
                    e_in = pyrtl.Input(2, 'verif_ext_in')
                    e_reg = pyrtl.Register(2, 'verif_ext_reg')
                    e_reg.next <<= e_in
                    e_out = pyrtl.Output(2, 'verif_ext_out')
                    e_out <<= e_reg
                f1, f2 = io.StringIO(), io.StringIO()
                pyrtl.output_to_verilog(f1, block=b_ext)
                pyrtl.output_to_verilog(f2, block=passlib.private_copy(b_ext))
            ctx.evaluations += 1
            if f1.getvalue() != f2.getvalue() or 'verif_ext_out' not in f1.getvalue():
                ctx.violation('export-depends-on-earlier-export', 'output_to_verilog of a block that was exported, then extended, differs from the '
                              'export of a copy of the extended block (%d vs %d bytes; new Output %s)' % (
                                  len(f1.getvalue()), len(f2.getvalue()), 'present' if 'verif_ext_out' in f1.getvalue() else 'missing'),
                              dict(replay, call='output_to_verilog twice'))
        except pyrtl.PyrtlError:
            ctx.count('reader-raised', 'output_to_verilog-after-extension:PyrtlError')
        # output_to_firrtl rewrites in place but must preserve behaviour
        b2 = passlib.private_copy(blk)
        # a default_value every register and memory word of the design can hold (a wider one is not a legal state)
        minw = min([len(r) for r in b2.wirevector_subset(pyrtl.Register)] +
                   [n.op_param[1].bitwidth for n in b2.logic_subset('m@')] + [16])
        dv = (rng.getrandbits(minw) | 1) & ((1 << minw) - 1)

        def real_trace(b):
            # the real simulator with a non-zero default_value: registers without a reset value and unwritten
            # memory words start there, so state the export writes back into the block shows up
            try:
                sim = pyrtl.Simulation(block=b, default_value=dv, tracer=pyrtl.SimulationTrace(wires_to_track='all', block=b))
                for s in steps:
                    sim.step(dict(s))
                return {o: list(sim.tracer.trace[o]) for o in outs}
            except pyrtl.PyrtlError:
                return None
        before_dv = real_trace(b2)
        try:
            with contextlib.redirect_stdout(io.StringIO()):
                with pyrtl.set_working_block(b2, no_sanity_check=True):
                    roms = sorted({n.op_param[1] for n in b2.logic_subset('m') if isinstance(n.op_param[1], pyrtl.RomBlock)},
                                  key=lambda m: m.id)
                    roms = [m for m in roms if callable(m.data) or isinstance(m.data, (list, tuple))]
                    ctx.count('firrtl-rom_blocks', len(roms))
                    pyrtl.output_to_firrtl(io.StringIO(), rom_blocks=roms, block=b2)
            try:
                b2.sanity_check()
            except Exception as e:  # noqa
                ctx.violation('firrtl-leaves-malformed-block', 'after output_to_firrtl the block fails sanity_check: %s: %s' % (
                    type(e).__name__, str(e)[:160]), dict(replay, call='output_to_firrtl'))
                continue
            got, gresp, _ = passlib.spec_trace(ctx, b2, steps, {}, memmap_by_id, watch=outs)
            ctx.evaluations += 1
            if got is None:
                ctx.violation('firrtl-malformed', 'block after output_to_firrtl rejected: %s' % gresp.get('err'), replay)
            else:
                ncyc = None if bresp.get('wconflict') is None else bresp['wconflict'] + 1
                mm = simrun.compare_traces(base, got, names=outs, ncycles=ncyc)
                if mm:
                    ctx.violation('firrtl-changes-behaviour', 'output_to_firrtl\'s in-place rewrites changed Output %s at cycle %d: %d -> %d' % mm,
                                  dict(replay, call='output_to_firrtl'))
                after_dv = real_trace(b2)
                # (with several write ports on one memory a non-zero default can make two enabled ports meet on one address,
                # which the conflict-free run above does not show: those designs are compared under the default 0 only)
                wr_ports = {}
                for n_ in b2.logic_subset('@'):
                    wr_ports[n_.op_param[1]] = wr_ports.get(n_.op_param[1], 0) + 1
                if any(c_ > 1 for c_ in wr_ports.values()):
                    ctx.count('firrtl-default_value-compare', 'skipped: several write ports')
                elif not mm and before_dv is not None and after_dv is not None and ncyc is None and before_dv != after_dv:
                    o = [x for x in outs if before_dv[x] != after_dv[x]][0]
                    ctx.violation('firrtl-changes-behaviour:default_value', 'after output_to_firrtl, Simulation(default_value=%d) gives Output %s = %r, '
                                  'before the export %r' % (dv, o, after_dv[o], before_dv[o]), dict(replay, call='output_to_firrtl', default_value=dv))
        except pyrtl.PyrtlError:
            ctx.count('reader-raised', 'output_to_firrtl:PyrtlError')
        except Exception as e:  # noqa
            ctx.count('reader-raised', 'output_to_firrtl:%s' % type(e).__name__)
        ctx.case(('ro', len(blk.logic)), nontrivial=True)
        if len(ctx.violations) >= 4:
            break


def resimulation(ctx):
    """a simulation reads the block and leaves nothing behind: simulators built one after the other with default arguments,
    on the same block and on a copy of it, all start from an empty memory"""
    rng = ctx.rng
    for k in range(ctx.n(6, 40)):
        pyrtl.reset_working_block()
        aw, dw = rng.randint(1, 4), rng.randint(1, 9)
        mem = pyrtl.MemBlock(dw, aw, name='m', asynchronous=bool(k % 2))
        ra, wa, wd, we = pyrtl.Input(aw, 'ra'), pyrtl.Input(aw, 'wa'), pyrtl.Input(dw, 'wd'), pyrtl.Input(1, 'we')
        o = pyrtl.Output(dw, 'o')
        o <<= mem[ra]
        mem[wa] <<= pyrtl.MemBlock.EnabledWrite(wd, we)
        blk = pyrtl.working_block()
        hot = rng.randrange(1 << aw)
        steps = [{'ra': hot, 'wa': hot, 'wd': rng.getrandbits(dw) | 1, 'we': 1}] + \
                [{'ra': hot, 'wa': rng.randrange(1 << aw), 'wd': rng.getrandbits(dw), 'we': rng.randrange(2)} for _ in range(3)]
        cp = pyrtl.copy_block(blk, update_working_block=False)
        for simcls in (pyrtl.Simulation, pyrtl.FastSimulation):
            runs = []
            for b_ in (blk, blk, cp):
                sim = simcls(block=b_, tracer=pyrtl.SimulationTrace(block=b_))
                for s_ in steps:
                    sim.step(dict(s_))
                runs.append(list(sim.tracer.trace['o']))
                ctx.evaluations += 1
            ctx.count('resimulation', simcls.__name__)
            if runs[0][0] != 0 or runs[1] != runs[0] or runs[2] != runs[0]:
                ctx.violation('simulation-leaves-state:' + simcls.__name__, '%s built three times with default arguments (twice on a block, once on its '
                              'copy) and given the same inputs traces the read port as %r, %r and %r' % (simcls.__name__, runs[0], runs[1], runs[2]),
                              {'kind': 'resimulation', 'aw': aw, 'dw': dw, 'steps': steps, 'simulator': simcls.__name__})
                return


def firrtl_roms(ctx):
    """output_to_firrtl(rom_blocks=[...]) materialises function-valued ROM data in place: every word must survive"""
    rng = ctx.rng
    for k in range(ctx.n(8, 60)):
        aw = rng.choice([1, 2, 3, 5])
        dw = rng.choice([1, 2, 4, 8])
        table = [rng.getrandbits(dw) for _ in range(1 << aw)]
        kind = rng.choice(['func', 'func', 'list', 'tuple'])
        pyrtl.reset_working_block()
        data = (lambda a, t=tuple(table): t[a]) if kind == 'func' else (list(table) if kind == 'list' else tuple(table))
        rom = pyrtl.RomBlock(dw, aw, data, name='rom', asynchronous=True, pad_with_zeros=rng.random() < 0.5)
        addr = pyrtl.Input(aw, 'addr')
        o = pyrtl.Output(dw, 'data')
        o <<= rom[addr]
        blk = pyrtl.working_block()
        replay = {'kind': 'firrtl-rom', 'aw': aw, 'dw': dw, 'table': table, 'data_kind': kind}
        try:
            with contextlib.redirect_stdout(io.StringIO()):
                pyrtl.output_to_firrtl(io.StringIO(), rom_blocks=[rom], block=blk)
            sim = pyrtl.Simulation(block=blk)
            got = []
            for a in range(1 << aw):
                sim.step({'addr': a})
                got.append(sim.inspect('data'))
        except Exception as e:  # noqa
            ctx.violation('firrtl-rom-raises', 'after output_to_firrtl(rom_blocks=[rom]) the block raises %s: %s' % (type(e).__name__, str(e)[:120]), replay)
            continue
        ctx.evaluations += 1
        if got != table:
            bad = [a for a in range(1 << aw) if got[a] != table[a]][0]
            ctx.violation('firrtl-rom-changed', 'after output_to_firrtl(rom_blocks=[rom]) a %d-bit x 2^%d %s ROM reads %d at address %d, its data is %d' % (
                dw, aw, kind, got[bad], bad, table[bad]), replay)


def main(ctx):
    proofs_ok = proof_gate(ctx, gen_modules=[])
    orders = determinism(ctx)
    read_only(ctx)
    firrtl_roms(ctx)
    resimulation(ctx)
    ctx.extra['set_orders_exercised'] = orders
    ctx.oblige('observed:byte-identical exports and identical traces across hash seeds and allocation patterns; exports read-only',
               not ctx.violations, '%d child builds / reader calls' % ctx.evaluations)
    return conclude(ctx, rule='the same seeded design (random designs and a memory with three write ports sharing one enable) built in '
                    'separate processes under different PYTHONHASHSEED and allocation-noise patterns, comparing verilog (3 reset '
                    'modes), testbench, VCD, print_trace and traces byte for byte; every export/visualisation/analysis call checked '
                    'for structural and behavioural side effects; distinct = designs on which the noise produced > 1 set order')
