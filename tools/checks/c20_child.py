"""Child process of the C20 check: builds one design (seeded), optionally under allocation noise
that permutes every identity-hashed set, and prints a JSON object with the export texts."""
import hashlib
import io
import json
import os
import random
import sys

HERE = os.path.dirname(os.path.abspath(__file__))
sys.path.insert(0, os.path.join(HERE, '..'))
sys.path.insert(0, os.environ.get('PYRTL_REPO', '/repo'))
import pyrtl  # noqa: E402
from pyrtl import Input, Output, MemBlock, Register  # noqa: E402
from vlib import gen  # noqa: E402


def main():
    seed, noise, kind = int(sys.argv[1]), int(sys.argv[2]), sys.argv[3]
    junk = []
    if noise:
        nrng = random.Random(noise)
        orig_init = pyrtl.WireVector.__init__

        def noisy_init(self, *a, **k):
            # allocate and partially free junk so that id()s (hence set orders) differ between runs
            for _ in range(nrng.randint(0, 6)):
                junk.append(bytearray(nrng.randint(16, 400)))
            if junk and nrng.random() < 0.5:
                del junk[nrng.randrange(len(junk))]
            orig_init(self, *a, **k)
        pyrtl.WireVector.__init__ = noisy_init
    rng = random.Random(seed)
    memmap = {}
    copied = kind.endswith('+copy')
    kind = kind[:-5] if copied else kind
    if kind == 'shared-enable':
        pyrtl.reset_working_block()
        we = Input(1, 'we')
        m = MemBlock(8, 3, 'mem', asynchronous=True, max_read_ports=None, max_write_ports=None)
        ins = []
        # four write ports sharing one enable: two of them also share the data wire (they differ only in the
        # address), two have their own data
        shared = Input(8, 'dshared')
        ins.append(shared)
        for k in range(4):
            a = Input(3, 'a%d' % k)
            dta = shared if k < 2 else Input(8, 'd%d' % k)
            m[a] <<= MemBlock.EnabledWrite(dta, we)
            ins += [a] + ([] if k < 2 else [dta])
        ra = Input(3, 'ra')
        o = Output(8, 'o')
        o <<= m[ra]
        r = Register(8, 'acc')
        r.next <<= r + m[ra]
        o2 = Output(8, 'o2')
        o2 <<= r
        blk = pyrtl.working_block()
        inputs = [we, ra] + ins
    elif kind == 'same-name-mems':
        # one helper instantiated several times: memories (and a ROM pair) that share their name
        pyrtl.reset_working_block()
        ins = []
        acc = None
        for k in range(rng.randint(2, 4)):
            wa, wd, we, ra = Input(2, 'wa%d' % k), Input(8, 'wd%d' % k), Input(1, 'we%d' % k), Input(2, 'ra%d' % k)
            ins += [wa, wd, we, ra]
            m = MemBlock(8, 2, name='scratch', asynchronous=True)
            m[wa] <<= MemBlock.EnabledWrite(wd, we)
            memmap[m] = {a: rng.getrandbits(8) for a in range(4) if rng.random() < 0.7}
            o = Output(8, 'rd%d' % k)
            o <<= m[ra]
            acc = m[ra] if acc is None else (acc ^ m[ra])
        for k in range(2):
            rom = pyrtl.RomBlock(8, 2, [rng.getrandbits(8) for _ in range(4)], name='table', asynchronous=True)
            o = Output(8, 'rom%d' % k)
            o <<= rom[ins[3][0:2]]
        o = Output(8, 'all')
        o <<= acc
        blk = pyrtl.working_block()
        inputs = ins
    elif kind == 'blif':
        # a netlist file with several bit-indexed input and output vectors, a latch and a sub-model, imported with
        # vectors merged: the design (and every internal name it gets) is a function of the file only
        nv = rng.randint(2, 4)
        vecs = ['v%s' % chr(97 + i) for i in range(nv)]
        wid = {v: rng.randint(2, 3) for v in vecs}
        bits = [('%s[%d]' % (v, i)) for v in vecs for i in range(wid[v])]
        order = list(bits)
        rng.shuffle(order)
        lines = ['.model top', '.inputs clk ' + ' '.join(order) + ' en', '.outputs y[0] y[1] z q']
        for oname in ('y[0]', 'y[1]', 'z'):
            ins_ = rng.sample(bits, 3)
            lines += ['.names %s %s' % (' '.join(ins_), oname)] + ['%s 1' % ''.join(rng.choice('01-') for _ in ins_) for _ in range(2)]
        lines += ['.names %s en d' % rng.choice(bits), '11 1', '.latch d q re clk 0', '.end']
        text = '\n'.join(lines) + '\n'
        pyrtl.reset_working_block()
        import contextlib
        with contextlib.redirect_stdout(io.StringIO()):
            pyrtl.input_from_blif(text, merge_io_vectors=True)
        blk = pyrtl.working_block()
        inputs = sorted(blk.wirevector_subset(Input), key=lambda w_: w_.name)
    elif kind == 'bench':
        # an ISCAS .bench file in which several outputs are named like inputs (as in c1196, b18): the importer renames
        # those outputs, and which output gets which name must be a function of the file only
        pyrtl.reset_working_block()
        ins_n = ['a', 'b', 'c', 'd']
        same = rng.sample(ins_n, 4)
        lines = ['INPUT(%s)' % n for n in ins_n] + ['OUTPUT(%s)' % n for n in same] + ['OUTPUT(x)', 'OUTPUT(y)']
        lines += ['x = AND(%s, %s)' % tuple(rng.sample(ins_n, 2)), 't = DFF(x)', 'y = XOR(t, %s)' % rng.choice(ins_n)]
        import contextlib
        with contextlib.redirect_stdout(io.StringIO()):
            pyrtl.input_from_iscas_bench('\n'.join(lines) + '\n')
        blk = pyrtl.working_block()
        inputs = sorted(blk.wirevector_subset(Input), key=lambda w_: w_.name)
    elif kind == 'names':
        # names that tie under a natural-sort key (x1 / x01, a / A) and several names the exporter must
        # sanitise: the emitted text must not depend on the order in which sets happen to iterate
        pyrtl.reset_working_block()
        pad = [pyrtl.WireVector(1, 'pad%d' % i) for i in range(rng.randint(0, 5))]
        for w in pad:
            w <<= 0
        names_in = ['x1', 'x01', 'a', 'A', 'in b', 'in-c', 'x001']
        rng.shuffle(names_in)
        ins = [Input(rng.randint(1, 4), n) for n in names_in]
        regs = []
        for n in rng.sample(['r 1', 'r-2', 'r3', 'R3'], 3):
            r = Register(4, n)
            r.next <<= r + ins[rng.randrange(len(ins))]
            regs.append(r)
        outs_n = ['o b', 'o-c', 'o1', 'o01', 'O1']
        rng.shuffle(outs_n)
        for k, n in enumerate(outs_n):
            o = Output(5, n)
            o <<= (ins[k] + regs[k % len(regs)]) ^ ins[(k + 1) % len(ins)]
        tmp = pyrtl.WireVector(2, 'w 1')
        tmp <<= ins[0][0:1].zero_extended(2)
        o = Output(2, 'w-2')
        o <<= tmp
        # wires that are legitimately named like the identifiers the simulators / exporters make up for invalid names
        gnames = ['_fastsim_tmp_0', '_fastsim_tmp_1', '_fastsim_tmp_2', '_ver_out_tmp_0', '_ver_out_tmp_1', '_sani_temp0']
        rng.shuffle(gnames)
        parts = []
        for k, n in enumerate(gnames[:rng.randint(2, 6)]):
            g = pyrtl.WireVector(2, n)
            g <<= (ins[k % len(ins)][0:1].zero_extended(2) + k) ^ regs[k % len(regs)][0:2]
            parts.append(g)
        o = Output(2 * len(parts), 'o gen')
        o <<= pyrtl.concat_list(parts)
        blk = pyrtl.working_block()
        inputs = ins
    else:
        d = gen.rand_design(rng, profile='small', nops=rng.randint(4, 12), raw=False, nmems=rng.choice([0, 1, 2]),
                            ops=[o for o in gen.OPS_ALL if o != 'nand'])
        blk = d.block
        inputs = d.inputs
    if copied:
        # the same design after copy_block: names are kept, so every export must still be the same text
        blk = pyrtl.copy_block(blk, update_working_block=False)
        pyrtl.set_working_block(blk, no_sanity_check=True)
        memmap = {blk.mem_map[m]: v for m, v in memmap.items()} if memmap else memmap
    steps = []
    for c in range(5):
        s = {}
        used = set()
        for i in sorted(inputs, key=lambda w: w.name):
            v = rng.getrandbits(len(i))
            if kind == 'shared-enable' and i.name.startswith('a') and len(i) == 3:
                while v in used:       # distinct write addresses: the memory stays well defined
                    v = (v + 1) % 8
                used.add(v)
            s[i.name] = v
        steps.append(s)
    out = {}
    sim = pyrtl.Simulation(block=blk, memory_value_map=memmap or {})
    conflict = False
    wnets = sorted((n for n in blk.logic if n.op == '@'), key=str)
    bench_obs = []
    for s in steps:
        sim.step(dict(s))
        if kind == 'bench':
            # renamed outputs get tmpN names, which the default tracer leaves out: observe every Output by name
            bench_obs.append(sorted((o_.name, sim.inspect(o_)) for o_ in blk.wirevector_subset(pyrtl.Output)))
        # two enabled write ports, same memory and address, different data: the outcome is unspecified
        seen = {}
        for n in wnets:
            a, dta, en = (sim.inspect(w) for w in n.args)
            if en:
                key = (n.op_param[0], a)
                if key in seen and seen[key] != dta:
                    conflict = True
                seen[key] = dta
    if conflict:
        print(json.dumps({'skip': 'write-conflict'}))
        return
    out['trace'] = {k: v for k, v in sorted(sim.tracer.trace.items())}
    if kind == 'bench':
        out['outputs-by-name'] = bench_obs
    if kind != 'bench':       # (the Verilog exporter refuses the tmpN names the .bench importer gives renamed outputs)
        for add_reset in (True, False, 'asynchronous'):
            buf = io.StringIO()
            pyrtl.output_to_verilog(buf, add_reset=add_reset, block=blk)
            out['verilog:%s' % add_reset] = buf.getvalue()
        buf = io.StringIO()
        pyrtl.output_verilog_testbench(buf, sim.tracer, block=blk)
        out['testbench'] = buf.getvalue()
    buf = io.StringIO()
    sim.tracer.print_vcd(buf)
    out['vcd'] = buf.getvalue()
    buf = io.StringIO()
    sim.tracer.print_trace(buf)
    out['print_trace'] = buf.getvalue()
    fs = pyrtl.FastSimulation(block=blk, memory_value_map=memmap or {})
    for s in steps:
        fs.step(dict(s))
    out['fasttrace'] = {k: v for k, v in sorted(fs.tracer.trace.items())}
    # iteration-order witness (so the parent can see that the noise really permuted the sets)
    out['_order'] = hashlib.sha1(repr([str(n) for n in blk.logic]).encode()).hexdigest()[:8]
    print(json.dumps(out))


if __name__ == '__main__':
    main()
