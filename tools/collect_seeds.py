#!/usr/bin/env python3
"""Copy confirmed seeded changes (patch.diff, demo.py, meta.json, result.json) from a scratch directory into
/verif/seeded/<property>-<round><variant>/ and write seeded/INDEX.md.   collect_seeds.py /tmp/seedout r1"""
import json
import os
import shutil
import sys

VERIF = os.path.dirname(os.path.dirname(os.path.abspath(__file__)))


def main():
    src, rnd = sys.argv[1], sys.argv[2]
    for prop in sorted(os.listdir(src)):
        for var in ('A', 'B'):
            d = os.path.join(src, prop, var)
            if not os.path.exists(os.path.join(d, 'result.json')):
                continue
            res = json.load(open(os.path.join(d, 'result.json')))
            confirmed = (res.get('demo_on_changed', {}).get('exit') == 1 and res.get('demo_on_original', {}).get('exit') == 0
                         and str(res.get('suite_on_changed', '')).startswith('12 failed, 1151 passed'))
            if not confirmed:
                print('not confirmed:', d, res.get('demo_on_changed'), res.get('demo_on_original'), res.get('suite_on_changed'))
                continue
            dst = os.path.join(VERIF, 'seeded', '%s-%s%s' % (prop, rnd, var))
            os.makedirs(dst, exist_ok=True)
            for f in ('patch.diff', 'demo.py', 'meta.json', 'result.json'):
                shutil.copy(os.path.join(d, f), os.path.join(dst, f))
    rows = []
    base = os.path.join(VERIF, 'seeded')
    for name in sorted(os.listdir(base)):
        p = os.path.join(base, name, 'result.json')
        if not os.path.exists(p):
            continue
        res = json.load(open(p))
        meta = json.load(open(os.path.join(base, name, 'meta.json')))
        keys = sorted({v['key'] for runs in res['checks'].values() for r in runs for v in r['violations']})
        rows.append('| %s | %s | %s | %s | %s |' % (name, (meta.get('summary') or '').replace('|', '/')[:220], ', '.join(res.get('caught_every_seed') or []) or '-',
                                                  ', '.join(c for c in res.get('caught_by', []) if c not in res.get('caught_every_seed', [])) or '-',
                                                  ', '.join(keys)[:160]))
    with open(os.path.join(base, 'INDEX.md'), 'w') as f:
        f.write('# Seeded property-breaking changes and which checks catch them\n\n'
                'Each directory: `patch.diff` (applies to /repo with `git apply`), `demo.py` (run from the root of a checkout: '
                'exit 0 / PROPERTY HOLDS on the original, exit 1 / PROPERTY BROKEN with the patch), `meta.json`, and `result.json` '
                'written by `tools/seedtest.py` (demo and test-suite confirmation, check exit codes and violation keys per seed).\n\n'
                '| seed | change | caught on every seed by | caught on some seeds by | violation keys |\n|---|---|---|---|---|\n')
        f.write('\n'.join(rows) + '\n')
    print(len(rows), 'seeds indexed')


if __name__ == '__main__':
    main()
