#!/usr/bin/env python3
"""Re-render section 10 of DESIGN.md from tools/design_asbuilt.md.tmpl, known_findings.json and seeded/INDEX.md."""
import json
import os

VERIF = os.path.dirname(os.path.dirname(os.path.abspath(__file__)))


def main():
    kf = json.load(open(os.path.join(VERIF, 'known_findings.json')))
    rows = []
    for f in kf['fixed']:
        body = f[len('fixed: '):]
        parts = body.split(' ')
        rows.append('| %s | `%s` | %s |' % (parts[0].split('=')[1], parts[1], ' '.join(parts[2:]).replace('|', '\\|')))
    known = ['| %s | `%s` | %s | %s |' % (k['property'], k['key'], k['what'].replace('|', '\\|'), k['why_not_fixed'].replace('|', '\\|'))
             for k in kf['known']]
    seeded = ''
    idx = os.path.join(VERIF, 'seeded', 'INDEX.md')
    if os.path.exists(idx):
        lines = open(idx).read().split('\n')
        seeded = '\n'.join([l for l in lines if l.startswith('|')][2:])
    tmpl = open(os.path.join(VERIF, 'tools', 'design_asbuilt.md.tmpl')).read()
    sec = tmpl.replace('{FIXED_TABLE}', '\n'.join(rows)).replace('{KNOWN_TABLE}', '\n'.join(known)).replace('{SEEDED_TABLE}', seeded)
    p = os.path.join(VERIF, 'DESIGN.md')
    s = open(p).read()
    i = s.index('\n## 10. As built')
    open(p, 'w').write(s[:i + 1] + sec)
    print('DESIGN.md section 10 rendered: %d fixed, %d known, %d seeded rows' % (len(rows), len(known), max(0, seeded.count('\n') - 1)))


if __name__ == '__main__':
    main()
