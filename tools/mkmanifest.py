#!/venv/bin/python
"""Writes /verif/MANIFEST.json from the table below (kept in one place so it stays valid)."""
import json
import os

HERE = os.path.dirname(os.path.abspath(__file__))
VERIF = os.path.abspath(os.path.join(HERE, '..'))

NOTE_COMMON = ('Trusted: Lean 4.33 kernel (axioms audited per run to be within propext/Classical.choice/Quot.sound; '
               'no sorry/native_decide/bv_decide/user axioms), tools/translate.py (Python ast -> Lean) for the '
               'regenerated modules, tools/vlib/serialize.py + the compiled Lean driver for the correspondence runs, '
               'CPython int semantics as modelled in Model/Core/PyInt.lean. ')

CLAIMED = {
    'C01': dict(
        text='Lean theorems about an impl model of pyrtl.Simulation (per-op Python-int arithmetic regenerated from '
             'simulation.py on every run) against the documented op table: per net for every op, all widths and '
             'in-range values (pysim_exec_eq_spec, pysim_netFun_eq_spec); per cycle and for WHOLE RUNS of any length '
             '(pysim_step_eq_spec, pysim_run_eq_spec, pysim_init_inv): from corresponding initial states and '
             'in-range inputs the model of Simulation.step traces on every meaningful wire exactly the value of the '
             'documented cycle semantics (registers one cycle late and truncated, reads before writes, writes at the '
             'end of the cycle), under the well-formedness sanity_check enforces; any two dependency orders give '
             'the same values; the consistent valuation exists and is unique. The model is tied to the code by '
             'translator (Tie A) and by running real Simulation and the model on generated designs with the '
             'simulator\'s own net order (Tie B); the Spec model is the oracle for failing-input search. PARTIAL '
             'in that the loop structure of step/_initialize is hand-modelled (tied by correspondence only).',
        design='4 C01',
        note=NOTE_COMMON + 'Modelled, not verified: CPython dict/set iteration (as an arbitrary dependency order), '
             'the trace recorder.',
        technique='Lean 4 proof (refinement impl-model = spec) + translator-regenerated definitions + differential correspondence'),
}

CLAIMED['C02'] = dict(
    text='Lean theorems fast_exec_eq_spec / fast_select_eq_spec: for every simple op, concat AND select (any index '
         'tuple: runs, reversals, repeats; inner and outer mask elision), all widths and in-range values, the Python '
         'expression FastSimulation emits (templates, make_split shapes, mask statement and _no_mask_bitwidth table '
         'regenerated from simulation.py on every run, parsed back with Python precedence) equals the documented op '
         'table, hence equals Simulation (fast_exec_eq_pysim, fast_select_eq_pysim). The hand-modelled run-splitting '
         'loop is tied per run to the generated code (pieces parsed out of _compiled() text = model runs) and to the '
         'values FastSimulation computes. C backend: the statements CompiledSimulation._build_* writes for a net are '
         'modelled as programs over 64-bit limbs (Model/Sim/CLimb.lean: C expression/statement AST with its semantics); '
         'on every run the generated C text of every combinational net of random designs is parsed and must equal the '
         'model program statement by statement. Theorems compiled_{add,sub,and,or,xor,not,nand,wire,mux,eq,lt,gt}_eq_spec: '
         'for operands of ANY widths (any number of limbs) and any destination width the program leaves the documented '
         'value in the destination limbs (carry/borrow detection by comparisons, comparison chains over limbs, mask rules '
         'of _makemask incl. the unmasked natural-width top limb); compiled_mul_eq_spec_partial: schoolbook multiplication '
         'on limbs (mul128 partial products, both carry detections per cell, row carry stored or provably zero) is exact at '
         'the natural destination width len(a)+len(b); compiled_select_eq_spec (every index tuple, any limbs); '
         'compiled_concat_eq_spec_partial: the piece-packing state machine of _build_concat (pieces of at most one limb, '
         'continued across limb boundaries) yields the documented concatenation at the natural width. PARTIAL: * and concat '
         'into a narrower raw destination are tied to the text and executed against the documented value but have no general '
         'theorem; memory reads are not modelled; '
         'the C hash-map memories, input/output packing, gcc and the mul128 macro are covered by correspondence against '
         'the Spec model only (widths across every 64-bit limb boundary). FastSimulation run level: fastsim_step_eq_spec / '
         'fastsim_run_eq_spec - FastSim.step (the step skeleton Simulation also has, over FastSimulation\'s per-net '
         'expressions) started from corresponding states traces, for any number of cycles, the documented value on every '
         'meaningful wire; the step model is executed against the real FastSimulation on every run.',
    design='4 C02',
    note=NOTE_COMMON + 'Modelled, not verified: gcc/ctypes/malloc, the inline-asm mul128, exec() of the generated Python; tools/vlib/cparse.py (parser of the C fragment) is part of the tie.',
    technique='Lean 4 proof over translator-regenerated emitter + differential correspondence with the Spec model')
CLAIMED['C03'] = dict(
    text='Lean theorems: the gate-level generators synthesize substitutes for + - = < > x (ripple adder, '
         'complement-add subtractor, comparator chain, mux) compute the documented primitive for every operand '
         'length (induction on the bit list). The Lean functions are tied to corecircuits._basic_* by exhaustive '
         'truth-table comparison on every run; whole-design preservation (both merge settings, reset values, '
         'memory maps, postcondition, map keys, original testbench) is checked by evaluating original and '
         'synthesized netlists in the Lean Spec model. The column-compression multiplier _basic_mult is proved exact '
         'for every operand length and value (basicMult_eq_spec: partial products, full/half-adder reduction passes '
         'preserve the weighted bit count modulo 2^n, the loop terminates with columns of height <= 2, final ripple '
         'addition). PARTIAL: the per-net decomposition of synthesize (which generator is applied to which net, '
         'wire maps) is tied by the netlist comparison only.',
    design='4 C03',
    note=NOTE_COMMON + 'or_all_bits is modelled as List.any (tree shape not modelled).',
    technique='Lean 4 proof by induction on bit lists + truth-table correspondence + netlist evaluation in the Lean Spec model')
CLAIMED['C11'] = dict(
    text='PARTIAL by nature. Lean theorems: clone_wire/_make_copy (regenerated from transform.py and memory.py) '
         'preserve every attribute the semantics reads (including reset_value, ROM data, memory id), so the copy '
         'is isomorphic and Spec.run-equal; a store model gives frame and freshness of allocation. CPython object '
         'identity/aliasing is observed per run: fingerprints of the source before/after each non-updating pass, '
         'working-block identity, id() disjointness, edit/simulate sequences on either block; memory attributes (name, '
         'widths, port limits, id) of every result compared with the source, incl. memories used up to differing port limits.',
    design='4 C11',
    note=NOTE_COMMON + 'CPython object identity and aliasing are observed, not modelled.',
    technique='Lean 4 proof over translator-regenerated cloning functions + per-run observation of object identity')

CLAIMED['C04'] = dict(
    text='Lean theorems. Netlist level, every run: the three alias-eliminating passes of optimize() (_remove_wire_nets, '
         '_remove_slice_nets, every round of common_subexp_elimination) are instances of one transformation (Model/Pass/Alias.lean: '
         'a set of nets is removed and every reader of a removed destination reads a replacement wire); a certificate is justified '
         '(decidable certOk) when each removed net is an equal-width w net, an all-bits-in-order select, or has the same op, '
         'destination width and arguments (same wires or equal constants; two arguments of a commutative op possibly swapped) as a '
         'kept net. alias_elimination_run_eq: a justified elimination preserves every Output and every kept wire in every cycle of '
         'every run from every initial state whose run is in range, and the register/memory state after every cycle is equal '
         '(alias_elimination_state_eq); proved through chains of aliases by induction along the dependency order and by uniqueness of '
         'the consistent valuation. TIE: on every run each call of those three functions inside optimize()/CSE is intercepted, the '
         'certificate is derived from the block before and after the call, the driver evaluates certOk/schedsOkB and '
         'Alias.applyCert must equal the real result net for net. Over the tables regenerated from passes.py: every '
         'constant-folding rule is sound at every width, CSE reorders arguments only of commutative ops, table consistency. '
         'dead_logic_removal_run_eq: _remove_unlistened_nets as Dead.applyDead of a closed removal (deadOk) preserves every Output and kept wire in every run, '
         'tied the same way. Constant propagation is the same transformation with more justifications (Alias.justConst/justConst1/justIdent/rewriteJustified: folds computed from the specification by foldVal, one-bit gates with one constant operand by their truth table, nets driving Outputs rewritten into w nets) and is tied the same way, per pass. PARTIAL: folding a register into a constant and removing a dead register are outside the model (oracle only). '
         'Whole-pass preservation (each pass and optimize, on word-level / synthesized / NAND / AIG blocks, repeated application, '
         'I/O kept, result well-formed, eliminated registers started at their settled constant) is also decided by evaluating '
         'both netlists in the Lean Spec model.',
    design='4 C04',
    note=NOTE_COMMON + 'The certificate derivation (checks/c04.py _derive_cert) is untrusted: Lean checks the certificate and the result is compared with the real output.',
    technique='Lean 4 proof (netlist-level refinement via uniqueness of the consistent valuation, induction along the dependency '
              'order; translator-regenerated folding tables) + certificate-checked structural correspondence per pass call + netlist '
              'evaluation in the Lean Spec model')

CLAIMED['C09'] = dict(
    text='Lean theorems at the level of whole netlists and whole runs: for nand_synth, and_inverter_synth, two_way_concat and '
         'one_bit_selects the block after the pass (Model/Pass/LowerNet.lean: every net kept or replaced by its gadget over '
         'fresh temporaries) shows, under the lowered schedule, in every cycle of every run from every initial state and for '
         'every input history, the value of the original block on every original wire, and the register/memory state after '
         'every cycle is equal (nand_synth_run_eq, and_inverter_synth_run_eq, two_way_concat_run_eq, one_bit_selects_run_eq, '
         'lowering_state_eq; generic theorem lower_run_preserves for any sound rule; gadget soundness from arbitrary valuations: '
         'gates by testBit extensionality at any width, the 2-way concat chain by congruence modulo the running width, one-bit '
         'selects for every index tuple). direct_connect_outputs (Model/Pass/Dco.lean: rounds to a fixpoint) preserves every '
         'Output in every cycle of every run (direct_connect_outputs_run_eq; uses Dco.comb_trunc: truncating the documented '
         'result of any primitive is the primitive at the narrower width). Postconditions of all five passes are theorems '
         '(…_post). The model passes are tied STRUCTURALLY to the code: on every run the real pass output must equal the model '
         'output net for net up to the names of temporaries, and the decidable hypotheses of the theorems (wfB, chainOkB, '
         'isTopo of the lowered schedule) are evaluated on every tested block. Value-level theorems as before (gate rules '
         'regenerated from passes.py, concat/select/fan-out tree). two_way_fanout_run_eq: removing the w nets the pass inserted is a justified alias elimination (C04 Alias development) on the block after the pass whose result is the block before it, checked per block. '
         ' lowered_schedule_is_dependency_order / net_transform_passes_run_eq_any_order: the lowered schedule is a dependency order, so the run theorems hold under any dependency order of the lowered nets. '
         'Behaviour, sanity_check, I/O preservation and postconditions of every pass and random pass sequences are also '
         'decided on the real result in the Lean Spec model.',
    design='4 C09',
    note=NOTE_COMMON + 'The hand-written pass models are compared with the real pass output on every run (checks/c09.py model_tie, dco_tie).',
    technique='Lean 4 proof (netlist-level refinement by induction over schedules and runs, uniqueness of the consistent valuation, '
              'testBit extensionality, modular arithmetic; decide over Bool for gate rules) + structural correspondence of the pass '
              'models + netlist evaluation in the Lean Spec model')
CLAIMED['C10'] = dict(
    text='Lean theorems over sanity_check_net as regenerated from core.py on every run (31 rules): every listed '
         'net-level fault class (foreign wire, Input/Const destination, Output argument, illegal op, wrong arity for '
         'every op class, every bitwidth rule, bad/missing parameters) is rejected wherever the net sits, API-shaped '
         'nets are not rejected; block-level model of sanity_check + acyclicity rejects duplicate names and double '
         'drivers; the dependency-order checker is proved sound (isTopo_sound, order-independence of evaluation in '
         'C01). Correspondence: 13 fault classes injected into live blocks, sanity_check and all three simulator '
         'constructors must raise, the Lean model must classify every good and faulty block identically; real Block '
         'iteration under native and hooked tie-breaks is checked to be exactly-once and a dependency order. The '
         'Block.__iter__ worklist is modelled as a relation (any ready net may be picked): every complete run is a '
         'schedule (arguments before uses) and a permutation of the nets (iter_order_is_schedule / _permutation), '
         'which is the well-formedness hypothesis of the run-level theorem of C01. PARTIAL: that the relation is what '
         'the Python loop does is tied by the order check on real iterations only.',
    design='4 C10',
    note=NOTE_COMMON + 'memory-sync walk and wirevector_by_name consistency are modelled only as far as the generators reach.',
    technique='Lean 4 proof over translator-regenerated sanity rules + fault enumeration as correspondence')

CLAIMED['C05'] = dict(
    text='PARTIAL. Lean theorems (Model/Verilog/Sem.lean = IEEE 1364-2001 expression-width, continuous and non-blocking '
         'assignment semantics of the emitted subset; Model/Verilog/Emit.lean = model of the emitter): for EVERY '
         'exportable combinational net (all primitives but nand), all operand and destination widths and all in-range '
         'values, the assignment the exporter emits stores exactly Spec.comb (emit_assign_eq_spec; per-op lemmas incl. '
         '`-` in a wider context, `~` truncated, mux arm order, select reversal and scalar selects, concat of any '
         'arity); memory read ports, unsized constants, the register block in its reset flavours and memory write ports '
         'at statement level; module level: under the well-formedness of C01 the valuation of the documented cycle '
         'semantics satisfies EVERY continuous assignment of the emitted module (verilog_assigns_hold), i.e. it is the '
         '(unique) solution of the emitted assignment system. Correspondence per run: the text written by output_to_verilog is parsed by a strict '
         'recogniser (anything outside the subset is an error) and must equal the emit model as an AST. Oracle per run: '
         'the parsed module is executed by the Lean evaluator against pyrtl.Simulation cycle by cycle for each add_reset, '
         'incl. a rst pulse; testbenches from traces of all three simulators are parsed: inputs = trace, initial '
         'registers/memory words = the state that simulator started from, ROMs untouched, and module+testbench reproduce '
         'the traced Outputs. The module-level statement (whole module run = Spec.run) is checked by that execution only, '
         'not proved; unsized literals are taken at their mathematical value; async reset is observed at clock edges.',
    design='4 C05',
    note=NOTE_COMMON + 'Model/Verilog/Sem.lean is a hand transcription of the standard (trusted). tools/vlib/vparse.py '
         '(recogniser) is trusted to parse the subset faithfully.',
    technique='Lean 4 proof (per-net Verilog-semantics = netlist-semantics, all widths) + emitter-model AST correspondence '
              '+ execution of the emitted text in the Lean Verilog evaluator against pyrtl.Simulation')

CLAIMED['C06'] = dict(
    text='Lean theorems over impl models that compose the primitive nets as wire.py/corecircuits.py do: zero extension '
         'keeps the value; + exact at max+1; - wraps modulo 2^(max+1); * exact at the matched widths; unsigned '
         'comparisons; bitwise ops after zero-extension; concat MSB-first; every bit of a select is the indexed bit of '
         'the operand (for any index list, hence any Python slice); the barrel shifter behind shift_*_logical/'
         'arithmetic moves the data by the full amount for every data width and every shift-amount width. The real '
         'operator netlists (all operators, helpers, constant-operand kinds) are evaluated in the Lean Spec model and '
         'compared with exact integer arithmetic and with the Lean impl models, exhaustively for small width pairs and '
         'on boundary/random values up to 130 bits. Signed helpers: sign extension keeps the two\'s-complement value at '
         'every target width; signed_lt is exactly the comparison of the signed values for operands of any two widths '
         '(the r[-1]^~a[-1]^~b[-1] trick); signed_add is the exact signed sum at max+1 bits and signed_mult the exact signed product at len(a)+len(b) bits. PARTIAL: '
         'signed_le/gt/ge and the constant shifts have tied models and differential checks but no theorem.',
    design='4 C06',
    note=NOTE_COMMON + 'Python slice -> index list is CPython\'s own range(w)[item].',
    technique='Lean 4 proof (induction over shift stages / index lists) + exhaustive small-width correspondence')

CLAIMED['C13'] = dict(
    text='Lean theorems on LSB-first bit lists, for every operand length and value: ripple_add (unequal lengths, '
         'half-adder tail), cla_adder (every la_unit_len >= 1), kogge_stone (parallel-prefix loop invariant; incl. '
         'carry-in) and carrysave_adder return the exact sum; wallace_reducer returns the weighted column sum modulo '
         '2^result_bitwidth for every column array (reduction loop incl. termination, _sparse_adder, any exact final '
         'adder), hence fast_group_adder (any number of operands), tree_multiplier (incl. the one-bit shortcut), '
         'generalized_fma / fused_multiply_adder are exact; signed_tree_multiplier returns the product of the '
         'two\'s-complement values incl. the most negative operands; the register-level model of simple_mult / '
         'complex_mult (any shifts >= 1) raises done within len(A) idle cycles after a start pulse issued from ANY earlier '
         'state (reset, finished, in flight) and then, and whenever done is seen, holds exactly A*B. The Lean models are '
         'executed by the driver against the real netlists on every run (values and result widths; the sequential '
         'multipliers cycle by cycle on random start/operand histories). Every generator is also evaluated against exact '
         'integer arithmetic over mixed widths (exhaustive for small total width, boundary values incl. the most negative '
         'operand beyond). PARTIAL: the Dada reduction schedule has the oracle check but no theorem.',
    design='4 C13',
    note=NOTE_COMMON,
    technique='Lean 4 proof by induction on bit lists / column arrays / clock edges + model-vs-netlist correspondence through the driver')

CLAIMED['C16'] = dict(
    text='Lean theorems over the helpers as symbolically executed from their Python bodies on every run (Gen.Conv): '
         'a non-negative value with an explicit bitwidth is accepted iff it fits and returned unchanged; a negative '
         'value is accepted iff representable in two\'s complement and returned as v mod 2^w; with no bitwidth the '
         'width is the minimal one (it fits, one bit fewer does not); val_to_signed_integer is the two\'s-complement '
         'reading and inverts the signed encoding of every accepted negative value. The real functions are compared '
         'with the translated ones on ~100k argument tuples and with the property in exact arithmetic (exhaustive for '
         'bitwidth <= 8, boundaries to 130 bits), including Const agreement, verilog-style strings in five notations, '
         'the four format round trips, libutils two\'s-complement inverses and bit-pattern round trips. PARTIAL: string '
         'parsing/formatting (int(), hex(), bin()) and bitpattern helpers are checked differentially only.',
    design='4 C16',
    note=NOTE_COMMON + 'CPython int()/hex()/bin()/str() are trusted. Known boundary (observation, not a violation): '
         'the string form rejects "-w\'d2^(w-1)" that the int form accepts.',
    technique='Lean 4 proof over symbolically-executed Python function bodies + exhaustive small-domain correspondence')

CLAIMED['C14'] = dict(
    text='Lean theorems: mux delivers exactly input number index for every select width, the default only for indices '
         'beyond the listed inputs; demux is one-hot at the selected index; the barrel shifter shifts by the full amount '
         'in the chosen direction with the chosen fill bit; bitfield_update keeps every bit outside lo..hi and places the '
         'new value at lo; splitting a value and concatenating reproduces it (chop/partition). Every helper (mux, select, '
         'enum_mux, sparse_mux incl. defaults and constant collapsing, prioritized_mux, MultiSelector, demux, '
         'barrel_shifter, bitfield_update(_set), match_bitpattern with separators and wildcards, chop, partition_wire, '
         'nested wire_struct/wire_matrix) is evaluated in the Lean Spec model against the documented selection over a '
         'shape grid with exhaustive values; mux/demux/prioritized_mux netlists are compared with the Lean models. '
         'PARTIAL: sparse_mux, prioritized_mux, match_bitpattern and the struct/matrix plumbing have no theorem.',
    design='4 C14',
    note=NOTE_COMMON + 'Python object plumbing of MultiSelector/WrappedWireVector is exercised, not modelled.',
    technique='Lean 4 proof by induction on the select bits / shift stages + exhaustive shape-grid correspondence')

CLAIMED['C07'] = dict(
    text='FULL over the elaboration model. Lean theorems: the conjunction _current_select builds equals the statement\'s '
         'definition of an active branch (guard holds at every enclosing level, no earlier sibling since the last otherwise '
         'taken); otherwise resets the chain; two assignments that pass the conflict test are never both active; for an '
         'accepted program the select chain yields the rhs of the unique active assignment wherever it sits, and the '
         'default when none is active. Correspondence: random condition trees (depth to 4, chains to 5, otherwise '
         'anywhere, shared predicates, wire/register/memory targets, defaults=) elaborated by the real code: accept/reject '
         'against the syntactic rule and against the Lean model; accepted programs evaluated in the Lean Spec model for 8 '
         'cycles against an interpreter of the statement.',
    design='4 C07',
    note=NOTE_COMMON + 'Global module state of conditional.py and the with-statement plumbing are exercised, not modelled; '
         'the memory branch of _finalize (combined enable/address/data chains) is checked by correspondence only.',
    technique='Lean 4 proof (refinement of the elaborated select chain to the unique-active-branch spec) + differential correspondence')

CLAIMED['C08'] = dict(
    text='Lean theorems: the write phase of the cycle semantics is the application of the cycle\'s enabled-write events; '
         'a word holds the data of the last enabled write to it, else what it held before (so disabled writes are '
         'invisible and reads of cycle t see only writes of cycles < t: content_step / content_zero); write ports to '
         'pairwise distinct words commute under every permutation; the chained hash map of the C backend (any bucket '
         'count, any collisions) refines a total map with default 0. Correspondence/oracle: random multi-port histories '
         '(addr/data widths 1..70, initial contents) on the three simulators, the Lean Spec model and after '
         'synthesize/optimize against a plain array; an exhaustive 2-word memory sweep (a test); ROM reads for '
         'list/dict/function/sparse data incl. refusal of undefined and oversize words. PARTIAL: the exported-Verilog '
         'clause is covered under C05; RomBlock._get_read_data has no theorem.',
    design='4 C08',
    note=NOTE_COMMON + 'malloc/memcpy of the generated C are modelled as functional updates.',
    technique='Lean 4 proof (refinement to an array / total map) + history correspondence on three simulators')

CLAIMED['C15'] = dict(
    text='Lean theorems over the three input-validation conditions regenerated from simulation.py/compilesim.py on every '
         'run: Simulation, FastSimulation and CompiledSimulation each refuse exactly the values outside [0, 2^w), hence '
         'agree; printed digits decode to the value in every base. Correspondence/oracle on generated designs x three '
         'simulators: inspect() equals the last trace entry after every step, trace length equals the step count, '
         'step_multiple equals stepping one at a time and reports exactly the mismatching expected outputs (with ? '
         'entries), print_vcd (with/without clock) and print_trace (bases 2/8/10/16) are parsed back by an independent '
         'decoder, rtl_assert raises on the first cycle its wire is 0 (the cycle computed by the Lean Spec model) and not '
         'before, illegal values (-1, -2^w, 2^w, huge) are refused at widths 1..128. PARTIAL: the trace/report/VCD '
         'writers are checked by decoding their real output, not modelled.',
    design='4 C15',
    note=NOTE_COMMON + 'Text layout of print_trace/print_vcd is decoded by the harness parser (trusted).',
    technique='Lean 4 proof over translator-regenerated input checks + channel-agreement correspondence on three simulators')

CLAIMED['C17'] = dict(
    text='Lean theorems over the model of _generate_timing_map: for every dependency order of the nets, each wire\'s '
         'timing is attained by a register-free path from a source and exceeded by none (longest-path characterisation), '
         'and is independent of the order used; max_length bounds every wire and is attained; fanout counts net argument '
         'positions. Correspondence/oracle on generated designs with reconvergent fan-out, registers and memories with '
         'write->read paths under random integer gate delays (many ties) and the default delays: timing_map and '
         'max_length against explicit path enumeration and against the Lean model, every critical path sums to max_length '
         'and is a connected chain from a source, max_freq against its formula for several tech/ffoverhead settings, '
         'paths(src,dst) against an independent enumeration of simple net paths, distance, fanout. PARTIAL: paths() and '
         'critical_path() have no Lean model; float delays are only structurally checked.',
    design='4 C17',
    note=NOTE_COMMON + 'IEEE-754 arithmetic of the default delay functions is not modelled (integer delays are used for exact comparison).',
    technique='Lean 4 proof (longest-path characterisation via the consistent-valuation lemma) + brute-force graph enumeration as oracle')

CLAIMED['C20'] = dict(
    text='PARTIAL by nature. Lean theorems: a stable sort by a key that is injective on the elements returns the same '
         'list for every permutation of its input (so any text emitted from it is the same), with a witness that equal '
         'keys make the result order-dependent (the defect fixed in _net_sorted); simulation values are independent of '
         'the dependency order used. Runtime behaviour is observed, not modelled: the same seeded design (random designs '
         'and a memory with three write ports sharing an enable) is built in separate processes under different '
         'PYTHONHASHSEED values and allocation-noise patterns that demonstrably permute the net sets, and verilog (three '
         'reset modes), testbench, VCD, print_trace texts and both simulators\' traces are compared byte for byte; every '
         'export/visualisation/analysis call is checked for structural (fingerprint) and behavioural (Lean Spec) side '
         'effects; output_to_firrtl\'s in-place rewrites must preserve behaviour (also under a non-zero default_value of the '
         'real simulator). Design kinds: random, shared-enable write ports, names tying under the sort key, same-named memories.',
    design='4 C20',
    note=NOTE_COMMON + 'That every emitter routes every set iteration through a sorting helper is established by the differential, not by a theorem.',
    technique='Lean 4 proof (permutation-invariance of key sort) + cross-process differential over hash seeds and allocation patterns')

CLAIMED['C18'] = dict(
    text='Lean theorems, checked by the kernel over the whole tables as regenerated from rtllib/aes.py on every run: the '
         'S-box equals the affine transform of the GF(2^8) inverse (FIPS-197 5.1.1) at all 256 entries, the inverse S-box '
         'inverts it both ways, the six constant-multiplication tables equal GF(2^8) multiplication, rcon[1..10] = x^(i-1), '
         'ShiftRows is the FIPS permutation under PyRTL\'s byte layout and InvShiftRows inverts it, the InvMixColumns and '
         'MixColumns constant matrices multiply to the identity over GF(2^8). prng_lfsr: for EVERY history of load/req/seed '
         'cycles the register-level model of the netlist (leap-ahead by bitwidth concatenations, truncation by the register, '
         'load before req) is in the state of the 127-bit Fibonacci LFSR (taps 126/125) reseeded by each load and advanced '
         'bitwidth single steps per request (lfsr_history_eq_spec, closed form lfsr_after_load); the model is run against the '
         'real circuit on random histories on every run. Oracle: independent references written from '
         'the publications against the real circuits: AES-128 (Appendix C vector, extreme and random keys/blocks), '
         'decryption inverts encryption, both state machines deliver the result when ready and hold it; xoroshiro128+, '
         'the 127-bit LFSR (taps 126/125, leaping bitwidth steps) and Trivium (after 1152 warm-up bits) for bitwidths '
         '1..256 and bits_per_cycle 1..64 with several requests separated by idle cycles; random load/req interleavings '
         '(coinciding pulses included) on the LFSR, reseeding of xoroshiro, several units with different keys built from one '
         'AES object. PARTIAL: the AES round structure and '
         'key expansion, xoroshiro128+ and Trivium have no Lean model (oracle only).',
    design='4 C18',
    note=NOTE_COMMON + 'FIPS-197, xoroshiro128+, Trivium and the LFSR are transcribed by hand in the harness (AES also in Lean).',
    technique='Lean 4 proof by kernel evaluation over complete tables (decide +kernel, no axioms) + reference-implementation oracle')

CLAIMED['C12'] = dict(
    text='PARTIAL. Lean theorems over tables regenerated from importexport.py on every run: every entry of the flop_next '
         'table equals the Yosys cell of that name for all (D,E,S,R,Q) (kernel evaluation over the complete table); the '
         'parser\'s dff_names list equals the table\'s keys and has no duplicate; each special-cased cover equals the BLIF '
         'on-set semantics of its token list and drives the signal listed after its inputs; the generic rtl_any/rtl_all '
         'construction equals the on-set semantics for covers of any size (induction); each .bench gate is correct on two '
         'sources, and the full n-source statement is proved FALSE of the importer (known finding bench-nary-gate, replayed '
         'on the real importer). Oracle: random BLIF files (general covers with don\'t-cares, constant/empty covers, .latch '
         'init 0-3, every listed cell, one- and two-level .subckt nesting, several sub-models, per-model clock formal names '
         'that are data ports elsewhere, buffered clocks, outputs read internally, vector ports, both '
         'merge_io_vectors settings) and random .bench files are imported by the real functions, the imported block is run '
         'in the Lean Spec model and compared cycle by cycle with an interpreter of the file. The parser and the model/vector '
         'wiring are covered by that comparison only, not by a theorem.',
    design='4 C12',
    note=NOTE_COMMON + 'The BLIF/bench interpreter in tools/checks/c12.py (written from the BLIF format description and the '
         'Yosys simcells) and Model/Graph/Blif.lean are the specification.',
    technique='Lean 4 proof (complete-table kernel evaluation + induction over covers) on tables regenerated from the source '
              '+ file-interpreter oracle through the Lean Spec model')

CLAIMED['C19'] = dict(
    text='PARTIAL. Lean theorems, for all shapes and widths: the bit offset of element (I,J) given by the constructor from '
         'a WireVector equals the one given by to_wirevector (conversion round trip is the identity on layout); C-order '
         'and F-order flat indices are bijections with the div/mod inverses used by flatten/reshape/put; a reshape lands '
         'inside the new shape; the declared widths of +, element-wise/scalar * and @ (n*n*(ba+bb) bits) hold the exact '
         'value; an integer index k on an axis of length n addresses exactly the cell k (n+k when negative) for -n <= k < n and is '
         'refused otherwise (model Model/Lib/MatrixIndex.lean of the index handling of __setitem__, tied on every run for every k '
         'on and beyond both ends of axes of length 1..4; the same theorem file proves that the code before the repair 7a54e23 '
         'gave the empty slice for k = -1). Oracle: every Matrix operation (access/slicing, +, saturating -, *, scalar *, @, **, transpose, '
         'reshape/flatten/put in both orders, sum/min/max/argmax along each axis, dot incl. the vector inner-product rule, '
         'hstack/vstack/concatenate, copy, setitem, conversion round trip, list_to_int) on shapes up to 4x4 with mixed '
         'element widths 1..8 against integer-matrix arithmetic modulo 2^bits of the result, comparing shape and bits as '
         'well; + * @ must be exact; random histories of in-place operations (+= -= *= @= **=), element/width assignment and '
         'observations on one Matrix object against the integer-matrix history. The operations themselves have no Lean model.',
    design='4 C19',
    note=NOTE_COMMON + 'Matrix element circuits are evaluated by FastSimulation (tied to the semantics by C02).',
    technique='Lean 4 proof (index and width arithmetic) + integer-matrix oracle over a shape/width grid')

NOT_YET = {}


def main():
    props = [json.loads(l) for l in open(os.path.join(VERIF, 'properties.jsonl'))]
    checks = []
    na = []
    for p in props:
        pid = p['id']
        if pid in CLAIMED:
            c = CLAIMED[pid]
            checks.append({
                'property_id': pid,
                'quick_cmd': '/venv/bin/python tools/check.py %s --tier quick' % pid,
                'thorough_cmd': '/venv/bin/python tools/check.py %s --tier thorough' % pid,
                'evidence_file': 'evidence/%s.json' % pid,
                'replay_cmd_template': '/venv/bin/python tools/check.py %s --replay {path}' % pid,
                'engine': 'lean4-proof+correspondence',
                'level_claimed': {'category': 'proof', 'text': c['text'], 'design_ref': 'DESIGN.md §' + c['design']},
                'level_note': c['note'],
                'technique': c['technique'],
            })
        else:
            na.append({'property_id': pid,
                       'reason': NOT_YET.get(pid, 'not claimed yet: model/theorems/correspondence for this property '
                                             'are still being built (see DESIGN.md §4); no check is registered')})
    m = {
        'version': 1,
        'setup_cmd': 'cd lean && lake build Model Driver driver Proofs',
        'hooks': {
            'guard': 'PYRTL_VERIF',
            'enable': 'environment PYRTL_VERIF=1 (set by tools/check.py) plus PYRTL_VERIF_ITER_SEED=<n> selects a '
                      'pseudo-random tie-break in Block.__iter__; pure Python, nothing to rebuild',
            'baseline_off_cmd': 'sh tools/baseline.sh',
            'source_commits': ['2e92bf6'],
            'add_only': True,
        },
        'engines': [{
            'name': 'lean4-proof+correspondence', 'path': 'lean/ + tools/',
            'serves_properties': sorted(CLAIMED),
            'kind_free_text': 'Lean 4 models and theorems (lean/Model, lean/Proofs), a Python-ast translator that '
                              'regenerates lean/Model/Gen from /repo on every run, and a JSON-line compiled Lean '
                              'driver run side by side with the real PyRTL code',
        }],
        'checks': checks,
        'not_applicable': na,
        'notes': 'Every check: tools/check.py <id> --tier quick|thorough; VERIF_SEED seeds all random choices; '
                 'exit 0 held / 1 VIOLATION / 2 machinery error or timeout. known_findings.json lists recorded and '
                 'fixed defects.',
    }
    with open(os.path.join(VERIF, 'MANIFEST.json'), 'w') as f:
        json.dump(m, f, indent=1)
    print('claimed', sorted(CLAIMED), 'not_applicable', len(na))


if __name__ == '__main__':
    main()
