"""Translate a tiny subset of Python expressions (ast nodes) into Lean 4 terms over `Int`.

Supported: integer literals, names, + - * // % **(const), & | ^ ~ << >>, unary -, comparisons (single
operator), `int(...)`, conditional expressions, and/or/not, `len(bin(x)) - 2` is left to callers via
`bitLength`-style builtins, `min`/`max`/`abs`.

Every Python value is an `Int` on the Lean side; Python bools are Lean `Bool`s and are converted
with `pyOfBool` when used as integers.  Anything outside the subset raises `Unsupported` so the
caller can fall back to the committed snapshot (see translate.py).
"""
import ast


class Unsupported(Exception):
    pass


_BIN = {
    ast.Add: '({} + {})', ast.Sub: '({} - {})', ast.Mult: '({} * {})',
    ast.BitAnd: '(pyAnd {} {})', ast.BitOr: '(pyOr {} {})', ast.BitXor: '(pyXor {} {})',
    ast.LShift: '(pyShl {} {})', ast.RShift: '(pyShr {} {})',
    ast.FloorDiv: '(pyFloorDiv {} {})', ast.Mod: '(pyMod {} {})',
}
_CMP = {
    ast.Lt: '(decide ({} < {}))', ast.Gt: '(decide ({} > {}))', ast.LtE: '(decide ({} ≤ {}))',
    ast.GtE: '(decide ({} ≥ {}))', ast.Eq: '(decide ({} = {}))', ast.NotEq: '(decide ({} ≠ {}))',
}


def lean_name(n):
    if n in ('left', 'right', 'sel', 'f', 't', 'x', 'a', 'b', 'val', 'value', 'bitwidth', 'n',
             'l', 'r', 'v', 'w', 'num', 'start', 'stop', 'y'):
        return n + '_'   # avoid clashes with Lean keywords / notation
    return n


def is_bool(node):
    if isinstance(node, ast.Compare):
        return True
    if isinstance(node, ast.BoolOp):
        return all(is_bool(v) for v in node.values)
    if isinstance(node, ast.UnaryOp) and isinstance(node.op, ast.Not):
        return True
    if isinstance(node, ast.Constant) and isinstance(node.value, bool):
        return True
    return False


def tr_bool(node, names=None):
    """Lean `Bool` term for a Python expression used as a condition."""
    if isinstance(node, ast.Compare):
        if len(node.ops) != 1:
            # chained comparison a < b < c
            parts = []
            left = node.left
            for op, right in zip(node.ops, node.comparators):
                if type(op) not in _CMP:
                    raise Unsupported(ast.dump(op))
                parts.append(_CMP[type(op)].format(tr_int(left, names), tr_int(right, names)))
                left = right
            return '(' + ' && '.join(parts) + ')'
        op = node.ops[0]
        if type(op) not in _CMP:
            raise Unsupported(ast.dump(op))
        return _CMP[type(op)].format(tr_int(node.left, names), tr_int(node.comparators[0], names))
    if isinstance(node, ast.BoolOp):
        j = ' && ' if isinstance(node.op, ast.And) else ' || '
        return '(' + j.join(tr_bool(v, names) for v in node.values) + ')'
    if isinstance(node, ast.UnaryOp) and isinstance(node.op, ast.Not):
        return '(!' + tr_bool(node.operand, names) + ')'
    if isinstance(node, ast.Constant) and isinstance(node.value, bool):
        return 'true' if node.value else 'false'
    # an integer used as a condition: non-zero
    return '(decide ({} ≠ 0))'.format(tr_int(node, names))


def tr_int(node, names=None):
    """Lean `Int` term for a Python integer expression."""
    if isinstance(node, ast.Constant):
        if isinstance(node.value, bool):
            return '(pyOfBool {})'.format('true' if node.value else 'false')
        if isinstance(node.value, int):
            return '({} : Int)'.format(node.value) if node.value >= 0 else '(-{} : Int)'.format(-node.value)
        raise Unsupported('constant ' + repr(node.value))
    if isinstance(node, ast.Name):
        if names is not None and node.id not in names:
            raise Unsupported('free name ' + node.id)
        return lean_name(node.id)
    if isinstance(node, ast.BinOp):
        if isinstance(node.op, ast.Pow):
            return '({} ^ ({}).toNat)'.format(tr_int(node.left, names), tr_int(node.right, names))
        if type(node.op) not in _BIN:
            raise Unsupported(ast.dump(node.op))
        return _BIN[type(node.op)].format(tr_int(node.left, names), tr_int(node.right, names))
    if isinstance(node, ast.UnaryOp):
        if isinstance(node.op, ast.Invert):
            return '(pyNot {})'.format(tr_int(node.operand, names))
        if isinstance(node.op, ast.USub):
            return '(-{})'.format(tr_int(node.operand, names))
        if isinstance(node.op, ast.UAdd):
            return tr_int(node.operand, names)
        if isinstance(node.op, ast.Not):
            return '(pyOfBool {})'.format(tr_bool(node, names))
    if isinstance(node, ast.IfExp):
        return '(if {} then {} else {})'.format(
            tr_bool(node.test, names), tr_int(node.body, names), tr_int(node.orelse, names))
    if isinstance(node, (ast.Compare, ast.BoolOp)):
        return '(pyOfBool {})'.format(tr_bool(node, names))
    if isinstance(node, ast.Call) and isinstance(node.func, ast.Name):
        fn = node.func.id
        if fn == 'int' and len(node.args) == 1:
            a = node.args[0]
            return '(pyOfBool {})'.format(tr_bool(a, names)) if is_bool(a) else tr_int(a, names)
        if fn in ('min', 'max') and len(node.args) == 2:
            return '({} {} {})'.format(fn, tr_int(node.args[0], names), tr_int(node.args[1], names))
        if fn == 'abs' and len(node.args) == 1:
            return '((Int.natAbs {} : Nat) : Int)'.format(tr_int(node.args[0], names))
    raise Unsupported(ast.dump(node))


def lambda_to_def(name, lam, ret='Int'):
    """`lambda a, b: expr` -> `def name (a_ b_ : Int) : Int := expr`."""
    assert isinstance(lam, ast.Lambda)
    params = [a.arg for a in lam.args.args]
    body = tr_int(lam.body, set(params))
    ps = ' '.join('({} : Int)'.format(lean_name(p)) for p in params)
    return 'def {} {} : {} := {}'.format(name, ps, ret, body)
