"""Symbolic execution of a loop-free Python function into one pure Lean expression.

The function body may use assignments (also augmented), if/elif/else, `raise` and `return`.
The result is `Option <tuple of Int>`: `none` where the Python code raises, `some (...)` where it
returns.  `None` (e.g. an omitted bitwidth) is the sentinel `pyNone`; Bool parameters are declared
by the caller."""
import ast
import copy
from pyexpr2lean import Unsupported, lean_name

_BIN = {
    ast.Add: '({} + {})', ast.Sub: '({} - {})', ast.Mult: '({} * {})',
    ast.BitAnd: '(pyAnd {} {})', ast.BitOr: '(pyOr {} {})', ast.BitXor: '(pyXor {} {})',
    ast.LShift: '(pyShl {} {})', ast.RShift: '(pyShr {} {})',
    ast.FloorDiv: '(pyFloorDiv {} {})', ast.Mod: '(pyMod {} {})',
}
_CMP = {ast.Lt: '<', ast.Gt: '>', ast.LtE: '≤', ast.GtE: '≥', ast.Eq: '=', ast.NotEq: '≠'}


class Sym(object):
    def __init__(self, bool_vars=(), skip_conditions=()):
        self.bool_vars = set(bool_vars)
        self.skip = set(skip_conditions)

    # ---- expressions over an environment {python name: lean term}
    def is_bool(self, node, env):
        if isinstance(node, (ast.Compare, ast.BoolOp)):
            return True
        if isinstance(node, ast.UnaryOp) and isinstance(node.op, ast.Not):
            return True
        if isinstance(node, ast.Name) and node.id in self.bool_vars:
            return True
        if isinstance(node, ast.Constant) and isinstance(node.value, bool):
            return True
        return False

    def b(self, node, env):
        if isinstance(node, ast.Compare):
            parts = []
            left = node.left
            for op, right in zip(node.ops, node.comparators):
                if isinstance(op, (ast.Is, ast.IsNot)) and isinstance(right, ast.Constant) and right.value is None:
                    t = '(decide ({} = pyNone))'.format(self.i(left, env))
                    parts.append(t if isinstance(op, ast.Is) else '(!' + t + ')')
                elif type(op) in _CMP:
                    parts.append('(decide ({} {} {}))'.format(self.i(left, env), _CMP[type(op)], self.i(right, env)))
                else:
                    raise Unsupported('comparison ' + ast.dump(op))
                left = right
            return parts[0] if len(parts) == 1 else '(' + ' && '.join(parts) + ')'
        if isinstance(node, ast.BoolOp):
            j = ' && ' if isinstance(node.op, ast.And) else ' || '
            return '(' + j.join(self.b(v, env) for v in node.values) + ')'
        if isinstance(node, ast.UnaryOp) and isinstance(node.op, ast.Not):
            return '(!' + self.b(node.operand, env) + ')'
        if isinstance(node, ast.Name) and node.id in self.bool_vars:
            return env[node.id]
        if isinstance(node, ast.Constant) and isinstance(node.value, bool):
            return 'true' if node.value else 'false'
        return '(decide ({} ≠ 0))'.format(self.i(node, env))

    def i(self, node, env):
        if isinstance(node, ast.Constant):
            if isinstance(node.value, bool):
                return '(pyOfBool {})'.format('true' if node.value else 'false')
            if isinstance(node.value, int):
                return '({} : Int)'.format(node.value) if node.value >= 0 else '(-{} : Int)'.format(-node.value)
            if node.value is None:
                return 'pyNone'
            raise Unsupported('constant ' + repr(node.value))
        if isinstance(node, ast.Name):
            if node.id not in env:
                raise Unsupported('free name ' + node.id)
            if node.id in self.bool_vars:
                return '(pyOfBool {})'.format(env[node.id])
            return env[node.id]
        if isinstance(node, ast.BinOp):
            if isinstance(node.op, ast.Pow):
                return '({} ^ ({}).toNat)'.format(self.i(node.left, env), self.i(node.right, env))
            if type(node.op) not in _BIN:
                raise Unsupported(ast.dump(node.op))
            return _BIN[type(node.op)].format(self.i(node.left, env), self.i(node.right, env))
        if isinstance(node, ast.UnaryOp):
            if isinstance(node.op, ast.Invert):
                return '(pyNot {})'.format(self.i(node.operand, env))
            if isinstance(node.op, ast.USub):
                return '(-{})'.format(self.i(node.operand, env))
            if isinstance(node.op, ast.Not):
                return '(pyOfBool {})'.format(self.b(node, env))
        if isinstance(node, ast.IfExp):
            return '(if {} then {} else {})'.format(self.b(node.test, env), self.i(node.body, env), self.i(node.orelse, env))
        if isinstance(node, (ast.Compare, ast.BoolOp)):
            return '(pyOfBool {})'.format(self.b(node, env))
        if isinstance(node, ast.Call):
            f = node.func
            if isinstance(f, ast.Name) and f.id == 'int' and len(node.args) == 1:
                a = node.args[0]
                return '(pyOfBool {})'.format(self.b(a, env)) if self.is_bool(a, env) else self.i(a, env)
            if isinstance(f, ast.Name) and f.id == 'len' and len(node.args) == 1 \
                    and isinstance(node.args[0], ast.Call) and isinstance(node.args[0].func, ast.Name) \
                    and node.args[0].func.id == 'bin':
                return '(pyBinLen {})'.format(self.i(node.args[0].args[0], env))
            if isinstance(f, ast.Name) and f.id == 'abs' and len(node.args) == 1:
                return '(pyAbs {})'.format(self.i(node.args[0], env))
            if isinstance(f, ast.Attribute) and f.attr == 'bit_length' and not node.args:
                return '(pyBitLength {})'.format(self.i(f.value, env))
        raise Unsupported('expression ' + ast.dump(node)[:100])

    # ---- statements -> decision tree
    def run(self, stmts, env):
        """returns ('raise',) | ('ret', [terms]) | ('if', cond, t, f) | ('fall', env)"""
        if not stmts:
            return ('fall', env)
        st, rest = stmts[0], stmts[1:]
        if isinstance(st, ast.Expr) and isinstance(st.value, ast.Constant):
            return self.run(rest, env)          # docstring
        if isinstance(st, ast.Raise):
            return ('raise',)
        if isinstance(st, ast.Return):
            v = st.value
            if isinstance(v, ast.Call) and isinstance(v.func, ast.Name) and v.func.id == 'ValueBitwidthTuple':
                return ('ret', [self.i(a, env) for a in v.args])
            if isinstance(v, ast.Tuple):
                return ('ret', [self.i(a, env) for a in v.elts])
            return ('ret', [self.i(v, env)])
        if isinstance(st, ast.Assign) and len(st.targets) == 1 and isinstance(st.targets[0], ast.Name):
            env = dict(env)
            name = st.targets[0].id
            if self.is_bool(st.value, env) and name in self.bool_vars:
                env[name] = self.b(st.value, env)
            else:
                env[name] = self.i(st.value, env)
            return self.run(rest, env)
        if isinstance(st, ast.AugAssign) and isinstance(st.target, ast.Name) and type(st.op) in _BIN:
            env = dict(env)
            env[st.target.id] = _BIN[type(st.op)].format(env[st.target.id], self.i(st.value, env))
            return self.run(rest, env)
        if isinstance(st, ast.If):
            if ast.unparse(st.test) in self.skip:
                return self.run(rest, env)
            cond = self.b(st.test, env)
            t = self.seq(self.run(st.body, env), rest)
            f = self.seq(self.run(st.orelse, env), rest)
            return ('if', cond, t, f)
        raise Unsupported('statement ' + ast.dump(st)[:80])

    def seq(self, tree, rest):
        if tree[0] == 'fall':
            return self.run(rest, tree[1])
        if tree[0] == 'if':
            return ('if', tree[1], self.seq(tree[2], rest), self.seq(tree[3], rest))
        return tree

    def emit(self, tree, indent=2):
        pad = ' ' * indent
        if tree[0] == 'raise':
            return pad + 'none'
        if tree[0] == 'ret':
            return pad + 'some (' + ', '.join(tree[1]) + ')'
        if tree[0] == 'fall':
            raise Unsupported('function may fall off its end')
        return '%sif %s then\n%s\n%selse\n%s' % (pad, tree[1], self.emit(tree[2], indent + 2), pad, self.emit(tree[3], indent + 2))


def func_to_lean(fn, lean_name_, bool_params=(), skip_conditions=(), arity=None):
    params = [a.arg for a in fn.args.args]
    sym = Sym(bool_vars=bool_params, skip_conditions=skip_conditions)
    env = {p: lean_name(p) for p in params}
    tree = sym.run(fn.body, env)
    n = None

    def count(t):
        nonlocal n
        if t[0] == 'ret':
            if n is not None and n != len(t[1]):
                raise Unsupported('returns of different arity')
            n = len(t[1])
        elif t[0] == 'if':
            count(t[2])
            count(t[3])
    count(tree)
    ty = ' × '.join(['Int'] * (n or 1))
    ps = ' '.join('(%s : %s)' % (lean_name(p), 'Bool' if p in bool_params else 'Int') for p in params)
    return 'def %s %s : Option (%s) :=\n%s' % (lean_name_, ps, ty, sym.emit(tree))
