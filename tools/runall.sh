#!/bin/sh
# run every claimed check at one tier (default quick); prints the OK/FAIL/VIOLATION lines
cd "$(dirname "$0")/.."
TIER=${1:-quick}
for id in C01 C02 C03 C04 C05 C06 C07 C08 C09 C10 C11 C12 C13 C14 C15 C16 C17 C18 C19 C20; do
  timeout ${VERIF_TIMEOUT:-3000} /venv/bin/python tools/check.py $id --tier $TIER > scratch/runall.$id.out 2>scratch/runall.$id.err
  rc=$?
  tail -4 scratch/runall.$id.out
  echo "exit=$rc $id"
done
