#!/usr/bin/env python3
"""Try one seeded change against the checks.

  seedtest.py <dir with patch.diff, demo.py, meta.json> [--checks C03,C09] [--seeds 1,2] [--no-suite]

Applies the patch to /repo's working tree (which must be clean), confirms the demonstration and the test
suite, runs the named checks (default: the property in meta.json), undoes the patch, and writes
<dir>/result.json.  Never commits anything in /repo."""
import argparse
import json
import os
import re
import subprocess
import sys

REPO = '/repo'
HERE = os.path.dirname(os.path.abspath(__file__))
VERIF = os.path.dirname(HERE)


def sh(cmd, **kw):
    return subprocess.run(cmd, shell=True, stdout=subprocess.PIPE, stderr=subprocess.STDOUT, universal_newlines=True, **kw)


def main():
    ap = argparse.ArgumentParser()
    ap.add_argument('dir')
    ap.add_argument('--checks', default=None)
    ap.add_argument('--seeds', default='1,2')
    ap.add_argument('--no-suite', action='store_true')
    ap.add_argument('--tier', default='quick')
    a = ap.parse_args()
    d = os.path.abspath(a.dir)
    meta = json.load(open(os.path.join(d, 'meta.json')))
    checks = a.checks.split(',') if a.checks else [meta['property']]
    if sh('git -C %s status --porcelain' % REPO).stdout.strip():
        print('refusing: /repo has uncommitted changes')
        return 2
    res = {'property': meta['property'], 'summary': meta.get('summary'), 'checks': {}}
    r = sh('git -C %s apply %s' % (REPO, os.path.join(d, 'patch.diff')))
    if r.returncode != 0:
        print('patch does not apply:', r.stdout)
        return 2
    try:
        demo = sh('cd %s && /venv/bin/python %s' % (REPO, os.path.join(d, 'demo.py')), timeout=900)
        res['demo_on_changed'] = {'exit': demo.returncode, 'tail': demo.stdout.strip().split('\n')[-1][:300]}
        if not a.no_suite:
            suite = sh('sh %s/baseline.sh' % HERE, timeout=3000)
            res['suite_on_changed'] = suite.stdout.strip().split('\n')[-1]
        for c in checks:
            runs = []
            for seed in a.seeds.split(','):
                env = dict(os.environ, VERIF_SEED=seed)
                p = sh('cd %s && timeout 3000 /venv/bin/python tools/check.py %s --tier %s' % (VERIF, c, a.tier), env=env)
                lines = [l for l in p.stdout.split('\n') if l.startswith(('VIOLATION', 'OK', 'FAIL'))]
                detail = []
                for l in lines:
                    m = re.match(r'VIOLATION property=\S+ replay=(\S+)', l)
                    if m and os.path.exists(os.path.join(VERIF, m.group(1))):
                        v = json.load(open(os.path.join(VERIF, m.group(1))))
                        detail.append({'key': v.get('key'), 'what': (v.get('what') or '')[:300], 'witness': v.get('witness')})
                runs.append({'seed': seed, 'exit': p.returncode, 'lines': lines[-3:], 'violations': detail})
            res['checks'][c] = runs
    finally:
        sh('git -C %s checkout -- .' % REPO)
    clean = sh('git -C %s status --porcelain' % REPO).stdout.strip()
    res['repo_clean_after'] = (clean == '')
    demo0 = sh('cd %s && /venv/bin/python %s' % (REPO, os.path.join(d, 'demo.py')), timeout=900)
    res['demo_on_original'] = {'exit': demo0.returncode, 'tail': demo0.stdout.strip().split('\n')[-1][:300]}
    res['caught_by'] = sorted(c for c, runs in res['checks'].items() if any(r['exit'] == 1 for r in runs))
    res['caught_every_seed'] = sorted(c for c, runs in res['checks'].items() if all(r['exit'] == 1 for r in runs))
    json.dump(res, open(os.path.join(d, 'result.json'), 'w'), indent=1)
    print(json.dumps({k: res[k] for k in ('property', 'summary', 'demo_on_changed', 'demo_on_original', 'caught_by', 'caught_every_seed')}, indent=1))
    if not a.no_suite:
        print('suite:', res.get('suite_on_changed'))
    for c, runs in res['checks'].items():
        for r_ in runs:
            print(c, 'seed', r_['seed'], 'exit', r_['exit'], [v['key'] for v in r_['violations']][:4])
    return 0


if __name__ == '__main__':
    sys.exit(main())
