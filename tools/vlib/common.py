"""Shared machinery of the checks: build + audit of the Lean side, the driver process, evidence,
violation reporting, known findings."""
import fcntl
import hashlib
import json
import os
import random
import re
import subprocess
import sys
import time

VERIF = os.path.abspath(os.path.join(os.path.dirname(os.path.abspath(__file__)), '..', '..'))
LEAN_DIR = os.path.join(VERIF, 'lean')
DRIVER = os.path.join(LEAN_DIR, '.lake', 'build', 'bin', 'driver')
EVIDENCE_DIR = os.path.join(VERIF, 'evidence')
REPLAY_DIR = os.path.join(VERIF, 'replays')
KNOWN = os.path.join(VERIF, 'known_findings.json')
REPO = os.environ.get('PYRTL_REPO', '/repo')

ALLOWED_AXIOMS = {'propext', 'Classical.choice', 'Quot.sound'}
FORBIDDEN = re.compile(r'\b(sorry|admit|native_decide|bv_decide|implemented_by|unsafe)\b|^axiom\s|maxHeartbeats 0')

TRUSTED_BASE = [
    'Lean 4.33 kernel (axioms allowed: propext, Classical.choice, Quot.sound; audited per run)',
    'tools/translate.py + tools/pyexpr2lean.py (Python ast -> Lean definitions), regenerated per run',
    'tools/vlib/serialize.py and the compiled Lean driver (Lean compiler/runtime trusted for '
    'correspondence runs only; no proof depends on compiled code)',
    'CPython int semantics as modelled in Model/Core/PyInt.lean (differentially checked)',
]


def seed_from_env():
    try:
        return int(os.environ.get('VERIF_SEED', '1'))
    except ValueError:
        return 1


class BuildResult(object):
    def __init__(self):
        self.ok = True
        self.failed_targets = []
        self.log = ''
        self.theorems = []        # names found in Props file
        self.axioms = {}          # theorem -> list of axioms
        self.bad_axioms = {}      # theorem -> offending axioms
        self.forbidden_hits = []
        self.translate_status = {}
        self.rechecked = None
        self.wall_s = 0.0


def _lock():
    os.makedirs(os.path.join(LEAN_DIR, '.lake'), exist_ok=True)
    f = open(os.path.join(LEAN_DIR, '.lake', 'verif.lock'), 'w')
    fcntl.flock(f, fcntl.LOCK_EX)
    return f


def lake(args, timeout=3000):
    p = subprocess.run(['lake'] + args, cwd=LEAN_DIR, stdout=subprocess.PIPE,
                       stderr=subprocess.STDOUT, text=True, timeout=timeout)
    return p.returncode, p.stdout


def strip_comments(src):
    # remove /- ... -/ (nested not handled beyond one level; good enough for our files) and -- ...
    out = []
    depth = 0
    i = 0
    while i < len(src):
        if src.startswith('/-', i):
            depth += 1
            i += 2
            continue
        if src.startswith('-/', i) and depth > 0:
            depth -= 1
            i += 2
            continue
        if depth == 0:
            if src.startswith('--', i):
                j = src.find('\n', i)
                i = len(src) if j < 0 else j
                continue
            out.append(src[i])
        elif src[i] == '\n':
            out.append('\n')
        i += 1
    return ''.join(out)


def theorem_names(path):
    with open(path) as f:
        src = strip_comments(f.read())
    names = []
    ns = []
    for line in src.split('\n'):
        m = re.match(r'\s*namespace\s+(\S+)', line)
        if m:
            ns.append(m.group(1))
            continue
        m = re.match(r'\s*end\s+(\S+)', line)
        if m and ns and ns[-1] == m.group(1):
            ns.pop()
            continue
        m = re.match(r'\s*(?:@\[[^\]]*\]\s*)?(?:private\s+|protected\s+)?theorem\s+(\S+)', line)
        if m:
            names.append('.'.join(ns + [m.group(1)]))
    return names


def forbidden_scan():
    hits = []
    for root, _dirs, files in os.walk(LEAN_DIR):
        if '.lake' in root:
            continue
        for fn in files:
            if not fn.endswith('.lean'):
                continue
            p = os.path.join(root, fn)
            with open(p) as f:
                src = strip_comments(f.read())
            for k, line in enumerate(src.split('\n')):
                if FORBIDDEN.search(line):
                    hits.append('%s:%d: %s' % (os.path.relpath(p, LEAN_DIR), k + 1, line.strip()[:80]))
    return hits


def build_and_audit(prop, extra_modules=(), need_driver=True, gen_modules=None, recheck=False):
    """translate -> lake build (driver, Props/<prop>) -> axiom audit.  Never raises on a failed
    proof: the caller decides what a broken obligation means."""
    sys.path.insert(0, os.path.join(VERIF, 'tools'))
    import translate
    res = BuildResult()
    t0 = time.time()
    lock = _lock()
    try:
        res.translate_status = translate.run(gen_modules)
        if need_driver:
            rc, log = lake(['build', 'driver'])
            if rc != 0:
                # a regenerated module may have broken the model: fall back to the snapshot
                res.log += log
                changed = [k for k, v in res.translate_status.items() if v['state'] in ('changed', 'new')]
                if changed:
                    for k in changed:
                        subprocess.run(['git', '-C', VERIF, 'checkout', '--',
                                        'lean/Model/Gen/%s.lean' % k], stdout=subprocess.DEVNULL,
                                       stderr=subprocess.DEVNULL)
                        res.translate_status[k] = {'state': 'broke-build-reverted-to-snapshot'}
                    rc, log = lake(['build', 'driver'])
                if rc != 0:
                    res.ok = False
                    res.failed_targets.append('driver')
                    res.log += log
        props_mod = 'Proofs.Props.%s' % prop
        props_path = os.path.join(LEAN_DIR, 'Proofs', 'Props', prop + '.lean')
        targets = [props_mod] + list(extra_modules)
        if os.path.exists(props_path):
            rc, log = lake(['build'] + targets)
            if rc != 0:
                res.ok = False
                res.failed_targets.append(props_mod)
                res.log += log
            res.theorems = theorem_names(props_path)
            if rc == 0 and res.theorems:
                audit_dir = os.path.join(LEAN_DIR, '.lake', 'audit')
                os.makedirs(audit_dir, exist_ok=True)
                ap = os.path.join(audit_dir, prop + '.lean')
                with open(ap, 'w') as f:
                    f.write('import %s\n' % props_mod)
                    for t in res.theorems:
                        f.write('#print axioms %s\n' % t)
                rc2, out = lake(['env', 'lean', ap])
                res.axioms = parse_axioms(out)
                if rc2 != 0:
                    res.ok = False
                    res.failed_targets.append('audit')
                    res.log += out
                for t in res.theorems:
                    ax = res.axioms.get(t)
                    if ax is None:
                        res.bad_axioms[t] = ['<not reported>']
                    else:
                        bad = [a for a in ax if a not in ALLOWED_AXIOMS]
                        if bad:
                            res.bad_axioms[t] = bad
                if res.bad_axioms:
                    res.ok = False
                    res.failed_targets.append('axiom-audit')
        if recheck and res.ok:
            # thorough tier: replay the compiled declarations of the property's module (and everything it
            # imports from this project) through leanchecker, the toolchain's independent kernel re-checker
            rc3, out3 = lake(['env', 'leanchecker', props_mod])
            res.rechecked = (rc3 == 0)
            if rc3 != 0:
                res.ok = False
                res.failed_targets.append('leanchecker')
                res.log += out3
        res.forbidden_hits = forbidden_scan()
        if res.forbidden_hits:
            res.ok = False
            res.failed_targets.append('forbidden-token')
    finally:
        lock.close()
    res.wall_s = time.time() - t0
    return res


def parse_axioms(out):
    """`'Foo.bar' depends on axioms: [propext, Quot.sound]` / `does not depend on any axioms`"""
    res = {}
    text = out.replace('\n ', ' ').replace('\n  ', ' ')
    for m in re.finditer(r"'(\S+)' depends on axioms: \[([^\]]*)\]", text, re.S):
        res[m.group(1)] = [a.strip() for a in m.group(2).replace('\n', ' ').split(',') if a.strip()]
    for m in re.finditer(r"'(\S+)' does not depend on any axioms", text):
        res[m.group(1)] = []
    return res


class Driver(object):
    """The compiled Lean model behind a one-line-in / one-line-out protocol."""

    def __init__(self):
        self.p = subprocess.Popen([DRIVER], stdin=subprocess.PIPE, stdout=subprocess.PIPE,
                                  text=True, bufsize=1)
        self.calls = 0

    def ask(self, req):
        self.p.stdin.write(json.dumps(req) + '\n')
        self.p.stdin.flush()
        import select
        r, _, _ = select.select([self.p.stdout], [], [], float(os.environ.get('VERIF_DRIVER_TIMEOUT', '300')))
        if not r:
            self.p.kill()
            raise RuntimeError('Lean driver timed out on a %s request' % req.get('cmd'))
        line = self.p.stdout.readline()
        self.calls += 1
        if not line:
            raise RuntimeError('Lean driver died on request %s' % json.dumps(req)[:300])
        return json.loads(line)

    def close(self):
        try:
            self.p.stdin.close()
            self.p.wait(timeout=10)
        except Exception:
            self.p.kill()


class Known(object):
    def __init__(self):
        self.known = []
        self.fixed = []
        if os.path.exists(KNOWN):
            with open(KNOWN) as f:
                d = json.load(f)
            self.known = d.get('known', [])
            self.fixed = d.get('fixed', [])

    def match(self, prop, key):
        for k in self.known:
            if k.get('property') == prop and k.get('key') == key:
                return k
        return None


class Ctx(object):
    """One check run of one property."""

    def __init__(self, prop, tier, replay=None):
        self.prop = prop
        self.tier = tier
        self.seed = seed_from_env()
        self.rng = random.Random((self.seed * 1000003) ^ int(hashlib.sha1(prop.encode()).hexdigest()[:8], 16))
        self.t0 = time.time()
        self.replay = replay
        self.evaluations = 0
        self.distinct = set()
        self.samples = []
        self.dist = {}
        self.obligations = []     # (name, ok, detail)
        self.violations = []      # dicts
        self.known_hits = []
        self.known = Known()
        self.assumptions = []
        self.extra = {}
        self.build = None
        self._driver = None
        self.deadline = None

    # ---- budget
    def quick(self):
        return self.tier == 'quick'

    def n(self, quick, thorough):
        return quick if self.tier == 'quick' else thorough

    def loop(self, n):
        """range(n) that stops early when the run's time budget (VERIF_BUDGET_S) is used up; the evidence
        records how far it got"""
        for k in range(n):
            if not self.time_left():
                self.extra.setdefault('budget_cut', []).append({'planned': n, 'done': k})
                return
            yield k

    def time_left(self):
        return True if self.deadline is None else time.time() < self.deadline

    # ---- driver
    @property
    def driver(self):
        if self._driver is None:
            self._driver = Driver()
        return self._driver

    # ---- accounting
    def count(self, table, key, n=1):
        t = self.dist.setdefault(table, {})
        t[str(key)] = t.get(str(key), 0) + n

    def case(self, fingerprint=None, nontrivial=True):
        self.evaluations += 1
        if nontrivial and fingerprint is not None:
            self.distinct.add(fingerprint if isinstance(fingerprint, (str, int)) else
                              hashlib.sha1(repr(fingerprint).encode()).hexdigest()[:16])

    def sample(self, obj, limit=4):
        if len(self.samples) < limit:
            self.samples.append(obj)

    def oblige(self, name, ok, detail=''):
        self.obligations.append((name, bool(ok), detail))

    # ---- violations
    def violation(self, key, what, replay_obj, witness=True):
        """Record a violation of the property.  `key` identifies the failing input/call site for
        matching against known_findings.json."""
        k = self.known.match(self.prop, key)
        if k is not None:
            if key not in [h[0] for h in self.known_hits]:
                self.known_hits.append((key, what))
            return
        if any(v['key'] == key for v in self.violations):
            return
        os.makedirs(REPLAY_DIR, exist_ok=True)
        h = hashlib.sha1((self.prop + key + json.dumps(replay_obj, sort_keys=True, default=str)).encode()).hexdigest()[:10]
        path = os.path.join(REPLAY_DIR, '%s-%s.json' % (self.prop, h))
        obj = {'property': self.prop, 'key': key, 'what': what, 'seed': self.seed, 'tier': self.tier,
               'witness': witness, 'replay': replay_obj,
               # every random choice derives from VERIF_SEED, so the same command reproduces the same case;
               # C01 can also re-execute the stored case alone with --replay <this file>
               'rerun': 'VERIF_SEED=%d /venv/bin/python tools/check.py %s --tier %s' % (self.seed, self.prop, self.tier)}
        with open(path, 'w') as f:
            json.dump(obj, f, indent=1, default=str)
        self.violations.append({'key': key, 'what': what, 'path': path, 'witness': witness})

    # ---- finish
    def finish(self, level='proof', rule='', checker_cmd='', trusted=None, explanation=''):
        if self._driver is not None:
            self._driver.close()
        wall = time.time() - self.t0
        n_obl = len(self.obligations)
        n_ok = sum(1 for o in self.obligations if o[1])
        cov = {
            'obligations': n_obl,
            'discharged': n_ok,
            'checker_cmd': checker_cmd or 'cd lean && lake build Proofs.Props.%s && lake env lean .lake/audit/%s.lean' % (self.prop, self.prop),
            'trusted_base': (trusted or []) + TRUSTED_BASE,
            'evaluations': self.evaluations,
            'distinct_nontrivial': len(self.distinct),
            'rule': rule,
            'samples': self.samples if self.samples else [{'note': 'no correspondence cases in this run'}],
            'obligation_list': [{'name': o[0], 'ok': o[1], 'detail': o[2]} for o in self.obligations],
            'distribution': self.dist,
            'explanation': explanation,
        }
        cov.update(self.extra)
        ev = {
            'property_id': self.prop, 'tier': self.tier, 'seed': self.seed, 'level': level,
            'coverage': cov, 'assumptions': self.assumptions, 'wall_s': round(wall, 2),
            'violations': len(self.violations),
        }
        os.makedirs(EVIDENCE_DIR, exist_ok=True)
        with open(os.path.join(EVIDENCE_DIR, self.prop + '.json'), 'w') as f:
            json.dump(ev, f, indent=1, default=str)
        for key, what in self.known_hits:
            print('KNOWN-FINDING: property=%s %s [%s]' % (self.prop, what, key))
        for v in self.violations:
            rel = os.path.relpath(v['path'], VERIF)
            tail = '' if v['witness'] else ' no-failing-input-found'
            print('VIOLATION property=%s replay=%s%s' % (self.prop, rel, tail))
        print('%s %s tier=%s seed=%d obligations=%d/%d cases=%d distinct=%d wall=%.1fs' % (
            'FAIL' if self.violations else 'OK', self.prop, self.tier, self.seed, n_ok, n_obl,
            self.evaluations, len(self.distinct), wall))
        return 1 if self.violations else 0


def proof_gate(ctx, gen_modules=None, extra_modules=()):
    """Tie A + proofs: regenerate the translated modules, rebuild the property's theorems against
    them, audit axioms.  Records one obligation per theorem, one for the audit and one per
    translated module.  Returns True when everything checked."""
    b = build_and_audit(ctx.prop, extra_modules=extra_modules, gen_modules=gen_modules, recheck=(ctx.tier == 'thorough'))
    ctx.build = b
    props_failed = ('Proofs.Props.%s' % ctx.prop) in b.failed_targets
    for t in b.theorems:
        ok = (not props_failed) and t not in b.bad_axioms
        ctx.oblige('theorem:' + t, ok, 'axioms=' + ','.join(b.axioms.get(t, ['?'])))
    if not b.theorems:
        ctx.oblige('theorems-present', False, 'no theorem found for ' + ctx.prop)
    ctx.oblige('axiom-audit', not b.bad_axioms and 'audit' not in b.failed_targets and not props_failed,
               json.dumps(b.bad_axioms))
    ctx.oblige('no-forbidden-tokens', not b.forbidden_hits, '; '.join(b.forbidden_hits[:5]))
    if b.rechecked is not None or 'leanchecker' in b.failed_targets:
        ctx.oblige('leanchecker:Proofs.Props.%s' % ctx.prop, bool(b.rechecked), 'independent re-check of the compiled declarations')
    for k, v in sorted(b.translate_status.items()):
        ctx.oblige('translator:' + k, v['state'] in ('unchanged', 'new', 'changed'), json.dumps(v))
    ctx.extra['build'] = {'ok': b.ok, 'failed_targets': b.failed_targets, 'wall_s': round(b.wall_s, 1),
                          'translate': b.translate_status, 'theorems': len(b.theorems)}
    if not b.ok:
        tail = '\n'.join(b.log.strip().split('\n')[-40:])
        ctx.extra['build']['log_tail'] = tail
        sys.stderr.write('[%s] proof obligations broken: %s\n%s\n' % (ctx.prop, b.failed_targets, tail))
    if 'driver' in b.failed_targets:
        raise RuntimeError('Lean driver does not build even from the committed snapshot')
    return b.ok


def conclude(ctx, **kw):
    """If an obligation is broken and the search found no failing input, still report it."""
    broken = [o for o in ctx.obligations if not o[1]]
    if broken and not ctx.violations:
        names = [o[0] for o in broken]
        ctx.violation('broken-obligation:' + ','.join(sorted(names))[:200],
                      'obligations no longer check: ' + ', '.join(names),
                      {'broken_obligations': [{'name': o[0], 'detail': o[2]} for o in broken],
                       'build_log_tail': (ctx.extra.get('build') or {}).get('log_tail', '')},
                      witness=False)
    return ctx.finish(**kw)
