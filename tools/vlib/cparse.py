"""Parser for the C fragment CompiledSimulation emits for one combinational net.

parse_net(lines, argnames, destname) -> list of statements in the JSON form Driver/CLimb.lean produces:
  expression: ["lit", n] | ["v", var] | [op, x, y] | ["~", x] | ["<<", x, k] | [">>", x, k]
  var:        ["a", k, limb] | ["d", limb] | ["tmp"] | ["carry"] | ["tmplo"] | ["tmphi"]
  statement:  ["=", var, e] | ["if", e, [stmts], [stmts]] | ["mul128", e, e, var, var]
Anything outside the fragment raises CParseError (the tie then reports the text as not recognised)."""
import re

TOK = re.compile(r'\s*(0x[0-9A-Fa-f]+|\d+|[A-Za-z_][A-Za-z0-9_]*|<<|>>|==|&&|\|\||\+=|[-+~&|^<>()=\[\];,{}])')
SCALARS = ('tmp', 'carry', 'tmplo', 'tmphi')
LEVELS = [['||'], ['&&'], ['|'], ['^'], ['&'], ['=='], ['<', '>'], ['<<', '>>'], ['+', '-']]


class CParseError(Exception):
    pass


def tokenize(text):
    pos, out = 0, []
    text = text.strip()
    while pos < len(text):
        m = TOK.match(text, pos)
        if not m:
            raise CParseError('cannot tokenize %r' % text[pos:pos + 20])
        out.append(m.group(1))
        pos = m.end()
    return out


class P(object):
    def __init__(self, toks, argnames, destname):
        self.t, self.i, self.args, self.dest = toks, 0, argnames, destname

    def peek(self):
        return self.t[self.i] if self.i < len(self.t) else None

    def take(self, want=None):
        tok = self.peek()
        if tok is None or (want is not None and tok != want):
            raise CParseError('expected %r, found %r' % (want, tok))
        self.i += 1
        return tok

    def var(self):
        name = self.take()
        if name in SCALARS:
            return [name]
        if self.peek() != '[':
            raise CParseError('array name %r without index' % name)
        self.take('[')
        n = int(self.take())
        self.take(']')
        if name == self.dest:
            return ['d', n]
        ks = [k for k, a in enumerate(self.args) if a == name]
        if len(ks) != 1:
            raise CParseError('name %r is not a distinct argument of the net' % name)
        return ['a', ks[0], n]

    def primary(self):
        tok = self.peek()
        if tok == '(':
            self.take('(')
            e = self.expr(0)
            self.take(')')
            return e
        if tok == '~':
            self.take('~')
            return ['~', self.primary()]
        if tok is not None and (tok[0].isdigit()):
            self.take()
            return ['lit', int(tok, 16) if tok.startswith('0x') else int(tok)]
        if tok is not None and re.match(r'[A-Za-z_]', tok):
            return ['v', self.var()]
        raise CParseError('unexpected token %r' % tok)

    def expr(self, lvl):
        if lvl == len(LEVELS):
            return self.primary()
        left = self.expr(lvl + 1)
        while self.peek() in LEVELS[lvl]:
            op = self.take()
            if op in ('<<', '>>'):
                k = self.take()
                if not k.isdigit():
                    raise CParseError('shift by a non-constant')
                left = [op, left, int(k)]
            else:
                left = [op, left, self.expr(lvl + 1)]
        return left

    def stmt(self):
        if self.peek() == 'mul128':
            self.take()
            self.take('(')
            x = self.expr(0)
            self.take(',')
            y = self.expr(0)
            self.take(',')
            lo = self.var()
            self.take(',')
            hi = self.var()
            self.take(')')
            self.take(';')
            return ['mul128', x, y, lo, hi]
        v = self.var()
        op = self.take()
        e = self.expr(0)
        self.take(';')
        if op == '=':
            return ['=', v, e]
        if op == '+=':
            return ['=', v, ['+', ['v', v], e]]
        raise CParseError('unexpected assignment operator %r' % op)


def parse_net(lines, argnames, destname):
    out, stack = [], []
    cur = out
    for line in lines:
        line = line.strip()
        if not line:
            continue
        if line.startswith('if (') and line.endswith('{'):
            p = P(tokenize(line[2:-1]), argnames, destname)
            cond = p.primary()
            node = ['if', cond, [], []]
            cur.append(node)
            stack.append((cur, node))
            cur = node[2]
        elif line == '} else {':
            cur = stack[-1][1][3]
        elif line == '}':
            cur = stack.pop()[0]
        else:
            p = P(tokenize(line), argnames, destname)
            while p.peek() is not None:
                cur.append(p.stmt())
    if stack:
        raise CParseError('unbalanced braces')
    return out


def net_sections(code_lines):
    """[(header comment, [lines])] for every '// net' comment; the last section stops where the memory writes,
    register updates or output copies begin"""
    lines = [l.strip() for l in code_lines]
    secs, cur = [], None
    for i, s_ in enumerate(lines):
        if s_.startswith('// net '):
            cur = (s_, [])
            secs.append(cur)
        elif cur is not None:
            if s_.startswith('uint64_t regtmp') or s_.startswith('outputs[') or s_ == '}' and not any(
                    x.startswith('if (') for x in cur[1]) or (s_.startswith('if (') and i + 1 < len(lines) and lines[i + 1].startswith('insert(')):
                cur = None
            else:
                cur[1].append(s_)
    return secs
