"""Rebuild a pyrtl Block from the serialized dict (for replays and the corpus)."""
import pyrtl
from pyrtl import Input, Output, Const, Register, WireVector, MemBlock, RomBlock, LogicNet


def build(data):
    """returns (block, wires by index, mems by id)"""
    pyrtl.reset_working_block()
    blk = pyrtl.working_block()
    ws = []
    for w in data['wires']:
        k = w['k']
        if k == 'i':
            x = Input(w['w'], w['n'])
        elif k == 'o':
            x = Output(w['w'], w['n'])
        elif k == 'c':
            x = Const(w['v'], bitwidth=w['w'], name=w['n'])
        elif k == 'r':
            x = Register(w['w'], w['n'], reset_value=w.get('v'))
        else:
            x = WireVector(w['w'], w['n'])
        ws.append(x)
    mems = {}
    for m in data.get('mems', []):
        if m.get('rom') is not None:
            table = {a: v for a, v in m['rom']}
            mm = RomBlock(m['dw'], m['aw'], table, name=m.get('name', 'rom%d' % m['id']),
                          asynchronous=m.get('async', True), max_read_ports=None,
                          pad_with_zeros=len(table) < (1 << m['aw']))
        else:
            mm = MemBlock(m['dw'], m['aw'], name=m.get('name', 'mem%d' % m['id']),
                          asynchronous=m.get('async', True), max_read_ports=None, max_write_ports=None)
        mems[m['id']] = mm
    for n in data['nets']:
        op = n['op']
        if op == 's':
            p = tuple(n['p'])
        elif op in 'm@':
            mm = mems[n['p']]
            p = (mm.id, mm)
        else:
            p = None
        blk.add_net(LogicNet(op, p, tuple(ws[a] for a in n['a']), tuple(ws[d] for d in n['d'])))
    return blk, ws, mems
