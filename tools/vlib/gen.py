"""Structured random PyRTL designs and stimuli (every choice comes from the rng passed in)."""
import pyrtl
from pyrtl import (Input, Output, Const, Register, WireVector, MemBlock, RomBlock, LogicNet,
                   PyrtlError, concat, select, as_wires, working_block)

W_SMALL = [1, 1, 2, 2, 3, 4, 5, 7, 8]
W_LIMB = [1, 2, 3, 5, 8, 16, 31, 32, 33, 63, 64, 65, 66, 100, 127, 128, 129, 130]
W_MED = [1, 2, 3, 4, 5, 7, 8, 9, 12, 16, 17]

OPS_ALL = ['+', '-', '*', '&', '|', '^', '~', '<', '>', '==', 'nand', 'mux', 'cat', 'sel', 'const',
           'trunc', 'ext', 'memr', 'romr', 'rawtrunc', 'constop', 'zext', 'le', 'ne']


class Design(object):
    def __init__(self):
        self.block = None
        self.inputs = []
        self.outputs = []
        self.regs = []
        self.mems = []
        self.roms = []
        self.profile = None
        self.ops_used = []

    def describe(self):
        b = self.block
        return {'wires': len(b.wirevector_set), 'nets': len(b.logic), 'inputs': [(i.name, len(i)) for i in self.inputs],
                'outputs': len(self.outputs), 'regs': [(r.name, len(r), r.reset_value) for r in self.regs],
                'mems': [(m.name, m.addrwidth, m.bitwidth) for m in self.mems],
                'roms': [(m.name, m.addrwidth, m.bitwidth) for m in self.roms],
                'profile': self.profile, 'ops': sorted(set(self.ops_used))}


def _addr(w, aw):
    """an address wire of exactly `aw` bits derived from w"""
    if len(w) >= aw:
        return w[:aw]
    return w.zero_extended(aw)


def rand_value(rng, bw):
    r = rng.random()
    if r < 0.12:
        return 0
    if r < 0.24:
        return (1 << bw) - 1
    if r < 0.30:
        return 1 << (bw - 1)
    if r < 0.36 and bw > 1:
        return (1 << (bw - 1)) - 1
    return rng.getrandbits(bw)


def rand_design(rng, profile='small', nops=None, nin=None, ops=None, nregs=None, nmems=None,
                nroms=None, raw=True, consts=True, max_total=400, name_style='plain',
                outputs='most', async_mem=True, wide_mem=True, twins=False):
    """Build a random design in a fresh working block and return a Design."""
    pyrtl.reset_working_block()
    widths = {'small': W_SMALL, 'limb': W_LIMB, 'med': W_MED}[profile]
    d = Design()
    d.profile = profile
    nin = rng.randint(1, 4) if nin is None else nin
    nops = rng.randint(4, 16) if nops is None else nops
    nregs = rng.randint(0, 3) if nregs is None else nregs
    nmems = rng.choice([0, 1, 1, 2]) if nmems is None else nmems
    nroms = rng.choice([0, 0, 1]) if nroms is None else nroms
    ops = list(ops or OPS_ALL)
    if not raw and 'rawtrunc' in ops:
        ops.remove('rawtrunc')
    if not consts:
        ops = [o for o in ops if o not in ('const', 'constop')]

    reserved = ['always', 'wire', 'reg', 'module', 'begin', 'end', 'signed', 'output', 'input', 'assign', 'integer', 'xor',
                'real', 'unsigned', 'library', 'cmos', 'rcmos', 'pull1', 'supply1', 'endtask', 'ifnone', 'scalared', 'time',
                'noshowcancelled', 'pulsestyle_onevent', 'pulsestyle_ondetect', 'wor', 'tri', 'nand', 'and', 'not']
    used_names = set()

    def nm(base):
        if name_style == 'plain' or rng.random() < 0.6:
            return base
        pykw = ['in', 'is', 'or', 'not', 'lambda', 'pass', 'del', 'None', 'class', 'from']
        cands = [base + (' x' if name_style != 'verilog-nospace' else '~x'), base + '[0]', '9' + base, None, base + '$', '$' + base,
                 'L' * 1025 + base, '\u00e9' + base, base + '.q', base + '-1', base + '__', 'Tmp' + base,
                 # two-digit vs one-digit indices (text order != numeric order), non-ASCII inside an ASCII-initial name,
                 # Python keywords (legal Verilog, illegal as Python identifiers)
                 'v[10]' + base, 'v[9]' + base, base + '\u00e9', 'PYKW']
        if name_style not in ('verilog', 'verilog-nospace'):
            cands += ['_ver_out_tmp_%d' % rng.randrange(3), 'tb_iter', 'block']
        cand = rng.choice(cands)
        if cand == 'PYKW':
            free = [r for r in pykw if r not in used_names]
            cand = rng.choice(free) if free else base
        if cand is None:
            free = [r for r in reserved if r not in used_names]
            cand = rng.choice(free) if free else base
        if cand in used_names:
            return base
        used_names.add(cand)
        return cand

    ins = [Input(rng.choice(widths), nm('i%d' % k)) for k in range(nin)]
    d.inputs = ins
    pool = list(ins)
    for k in range(nregs):
        bw = rng.choice(widths)
        rv = rng.choice([None, None, 0, 1, (1 << bw) - 1, rng.getrandbits(bw)])
        r = Register(bw, nm('r%d' % k), reset_value=rv)
        d.regs.append(r)
        pool.append(r)
    for k in range(nmems):
        dw = rng.choice([1, 3, 4, 8] if profile == 'small' else [1, 7, 8, 32, 64, 65, 70]) if wide_mem \
            else rng.choice([1, 3, 4, 8])
        aw = rng.choice([1, 2, 3] if profile == 'small' else [1, 2, 3, 5, 9])
        m = MemBlock(bitwidth=dw, addrwidth=aw, name=nm('mem%d' % k), asynchronous=async_mem,
                     max_read_ports=rng.choice([None, None, 40]),
                     # now and then a look-up table: a MemBlock that is only read (contents come from memory_value_map)
                     max_write_ports=rng.choice([None, None, 41]) if rng.random() > 0.12 else 0)
        d.mems.append(m)
    for k in range(nroms):
        dw = rng.choice([1, 4, 8] if profile == 'small' else [4, 8, 33, 64, 66])
        aw = rng.choice([1, 2, 3])
        kind = rng.choice(['list', 'dict', 'func', 'shortlist'])
        n = 1 << aw
        vals = [rng.getrandbits(dw) for _ in range(n)]
        if kind == 'list':
            data, pad = list(vals), False
        elif kind == 'shortlist':
            data, pad = list(vals[:max(1, n // 2)]), True
        elif kind == 'dict':
            data, pad = {a: vals[a] for a in range(n) if rng.random() < 0.7}, True
        else:
            table = tuple(vals)
            data, pad = (lambda a, table=table: table[a]), False
        # sometimes a single-port ROM that clones itself for every further read port (build_new_roms)
        clone = rng.random() < 0.3
        m = RomBlock(bitwidth=dw, addrwidth=aw, romdata=data, name=nm('rom%d' % k),
                     asynchronous=async_mem, max_read_ports=1 if clone else None, build_new_roms=clone, pad_with_zeros=pad)
        d.roms.append(m)
        d.rom_may_fault = False      # every kind above is total: full data or pad_with_zeros

    def pick():
        # favour recent wires a little so that depth grows
        if rng.random() < 0.4 and len(pool) > 3:
            return pool[-rng.randint(1, 3)]
        return rng.choice(pool)

    for _ in range(nops):
        op = rng.choice(ops)
        a = pick()
        b = pick()
        w = None
        try:
            if op == '+':
                w = a + b
            elif op == '-':
                w = a - b
            elif op == '*':
                if len(a) + len(b) > max_total:
                    continue
                w = a * b
            elif op == '&':
                w = a & b
            elif op == '|':
                w = a | b
            elif op == '^':
                w = a ^ b
            elif op == '~':
                w = ~a
            elif op == '<':
                w = a < b
            elif op == '>':
                w = a > b
            elif op == 'le':
                w = a <= b
            elif op == '==':
                w = a == b
            elif op == 'ne':
                w = a != b
            elif op == 'nand':
                w = a.nand(b)
            elif op == 'mux':
                w = select(pick()[0], a, b)
            elif op == 'cat':
                parts = [a, b] + [pick() for _ in range(rng.choice([0, 0, 1, 2]))]
                if rng.random() < 0.25:
                    # one wire used several times by the same net (replication)
                    parts = [a] * rng.randint(2, 4) + ([b] if rng.random() < 0.4 else [])
                    rng.shuffle(parts)
                if sum(len(p) for p in parts) > max_total:
                    continue
                w = concat(*parts)
            elif op == 'sel':
                n = len(a)
                kind = rng.random()
                if kind < 0.35:
                    lo = rng.randrange(n)
                    hi = rng.randrange(lo, n) + 1
                    w = a[lo:hi]
                elif kind < 0.45:
                    w = a[::-1]
                elif kind < 0.55:
                    w = a[::2]
                elif kind < 0.65:
                    w = a[rng.randrange(n)]
                elif kind < 0.75:
                    w = a[-rng.randint(1, n):]
                else:
                    idx = [rng.randrange(n) for _ in range(rng.randint(1, min(2 * n, 70)))]
                    out = WireVector(len(idx))
                    working_block().add_net(LogicNet('s', tuple(idx), (a,), (out,)))
                    w = out
            elif op == 'const':
                bw = rng.choice(widths)
                w = Const(rand_value(rng, bw), bw)
            elif op == 'constop':
                bw = len(a)
                c1 = Const(rand_value(rng, bw), bw)
                forms = [lambda: a & c1, lambda: a | c1, lambda: a ^ c1, lambda: a + c1,
                         lambda: c1 - a, lambda: a * Const(rng.getrandbits(2), 2),
                         lambda: a == c1, lambda: a < c1, lambda: select(a[0], c1, a),
                         # a multiplexer whose select is a constant (either value), data wires or constants
                         lambda: select(Const(rng.getrandbits(1), 1), a, b), lambda: select(Const(rng.getrandbits(1), 1), c1, a),
                         lambda: a & Const(0, bw), lambda: a | Const((1 << bw) - 1, bw),
                         lambda: c1.nand(a)]
                if 'nand' not in ops:
                    forms.pop()
                else:
                    forms.append(lambda: a.nand(Const(0, bw)))
                w = rng.choice(forms)()
            elif op == 'constreg':
                bw = rng.choice(widths)
                r_ = Register(bw, reset_value=rng.choice([None, 0, rand_value(rng, bw)]))
                c_ = Const(rand_value(rng, bw), bw)
                r_.next <<= rng.choice([lambda: c_, lambda: ~c_, lambda: c_ & Const(rand_value(rng, bw), bw)])()
                w = r_
            elif op == 'trunc':
                w = WireVector(rng.choice(widths))
                w <<= a
            elif op == 'ext':
                w = a.sign_extended(len(a) + rng.choice([1, 3, 8, 64]))
            elif op == 'zext':
                w = a.zero_extended(len(a) + rng.choice([1, 3, 8, 64]))
            elif op == 'memr':
                if not d.mems:
                    continue
                m = rng.choice(d.mems)
                w = as_wires(m[_addr(a, m.addrwidth)])
            elif op == 'romr':
                if not d.roms:
                    continue
                m = rng.choice(d.roms)
                w = as_wires(m[_addr(a, m.addrwidth)])
            elif op == 'rawtrunc':
                # a raw net whose destination is narrower than the natural result width
                kind = rng.choice(['w', '~', '&', '|', '^', 'n', '+', '-', '*', 'x', 'c', 's'])
                if kind in 'w~':
                    out = WireVector(rng.randint(1, len(a)))
                    working_block().add_net(LogicNet(kind, None, (a,), (out,)))
                elif kind in '&|^n+-*':
                    bb = b if len(b) == len(a) else _addr(b, len(a))
                    full = {'+': len(a) + 1, '-': len(a) + 1, '*': 2 * len(a)}.get(kind, len(a))
                    if full > max_total:
                        continue
                    out = WireVector(rng.randint(1, full))
                    working_block().add_net(LogicNet(kind, None, (a, bb), (out,)))
                elif kind == 'x':
                    bb = b if len(b) == len(a) else _addr(b, len(a))
                    out = WireVector(rng.randint(1, len(a)))
                    working_block().add_net(LogicNet('x', None, (pick()[0], a, bb), (out,)))
                elif kind == 'c':
                    if len(a) + len(b) > max_total:
                        continue
                    out = WireVector(rng.randint(1, len(a) + len(b)))
                    working_block().add_net(LogicNet('c', None, (a, b), (out,)))
                else:
                    idx = [rng.randrange(len(a)) for _ in range(rng.randint(1, 8))]
                    out = WireVector(rng.randint(1, len(idx)))
                    working_block().add_net(LogicNet('s', tuple(idx), (a,), (out,)))
                w = out
        except PyrtlError:
            continue
        if w is None:
            continue
        d.ops_used.append(op)
        pool.append(w)

    if twins:
        # "twin" nets: the same op on a permutation of an existing net's arguments (what a careless
        # common-subexpression pass would merge)
        for net in list(working_block().logic):
            if net.op in '&|^n+-*<>=xc' and len(net.args) >= 2 and rng.random() < 0.3:
                args = list(net.args)
                if net.op == 'x':
                    args = [args[0], args[2], args[1]]
                else:
                    rng.shuffle(args)
                out = WireVector(len(net.dests[0]))
                working_block().add_net(LogicNet(net.op, net.op_param, tuple(args), (out,)))
                pool.append(out)
                d.ops_used.append('twin')
    for r in d.regs:
        src = pick()
        if raw and len(src) > len(r) and rng.random() < 0.5:
            # a raw register net whose next-input is wider than the register (legal: truncates)
            working_block().add_net(LogicNet('r', None, (src,), (r,)))
            d.ops_used.append('rawreg')
        else:
            r.next <<= src
    if twins:
        # twin registers: same next-input wire, different reset values (must never be merged)
        for rnet in [n for n in working_block().logic if n.op == 'r']:
            if rng.random() < 0.4:
                r0 = rnet.dests[0]
                others = [v for v in (0, 1, (1 << len(r0)) - 1, rng.getrandbits(len(r0))) if v != (r0.reset_value or 0)]
                r2 = Register(len(r0), reset_value=rng.choice(others))
                working_block().add_net(LogicNet('r', None, rnet.args, (r2,)))
                d.regs.append(r2)
                pool.append(r2)
                d.ops_used.append('twinreg')
    for m in d.mems:
        if m.max_write_ports == 0:
            d.ops_used.append('readonly-mem')
            if not any(n.op_param[1] is m for n in working_block().logic_subset('m')):
                pool.append(as_wires(m[_addr(pick(), m.addrwidth)]))      # every memory of the design is used
            continue
        for _p in range(rng.choice([1, 1, 2, 3])):
            wa, wd, we = pick(), pick(), pick()
            data = wd[:m.bitwidth] if len(wd) >= m.bitwidth else wd.zero_extended(m.bitwidth)
            if rng.random() < 0.2:
                aw_ = _addr(wa, m.addrwidth)
                m[aw_] <<= data
                if rng.random() < 0.3:
                    m[aw_] <<= data      # the same unconditional write twice (distinct Const(1) enables)
                    d.ops_used.append('dupwrite')
            elif rng.random() < 0.15:
                # a write port tied off (or tied on) with a constant enable
                m[_addr(wa, m.addrwidth)] <<= MemBlock.EnabledWrite(data, Const(rng.getrandbits(1), 1))
                d.ops_used.append('constenable')
            else:
                m[_addr(wa, m.addrwidth)] <<= MemBlock.EnabledWrite(data, we[0])
    k = 0
    for w in pool[nin:]:
        if isinstance(w, Const):
            continue
        if outputs == 'most' and rng.random() < 0.3:
            continue
        o = Output(len(w), nm('o%d' % k))
        o <<= w
        d.outputs.append(o)
        k += 1
    if not d.outputs:
        o = Output(len(pool[-1]), nm('olast'))
        o <<= pool[-1]
        d.outputs.append(o)
    if name_style != 'plain':
        k = 0
        for w in pool[nin:]:
            if isinstance(w, (Input, Output, Register, Const)) or rng.random() < 0.8:
                continue
            new = nm('w%d' % k)
            k += 1
            if new not in working_block().wirevector_by_name:
                w.name = new
    # every input must be connected to something (sanity_check tolerates unconnected Inputs)
    d.block = working_block()
    return d


def rand_stimulus(rng, d, ncycles):
    """list of {input name: value} per cycle"""
    steps = []
    for _ in range(ncycles):
        steps.append({i.name: rand_value(rng, len(i)) for i in d.inputs})
    return steps


def rand_init(rng, d, with_default=True):
    """(register_value_map by Register, memory_value_map by MemBlock, default_value)"""
    regmap = {}
    for r in d.regs:
        if rng.random() < 0.4:
            regmap[r] = rand_value(rng, len(r))
    memmap = {}
    for m in d.mems:
        if rng.random() < 0.7:
            n = 1 << m.addrwidth
            addrs = range(n) if n <= 16 else [rng.randrange(n) for _ in range(12)]
            memmap[m] = {a: rand_value(rng, m.bitwidth) for a in addrs if rng.random() < 0.6}
    dflt = 0
    if with_default and rng.random() < 0.25:
        # a default that is legal for every register without reset and every memory word
        minw = min([len(r) for r in d.regs] + [m.bitwidth for m in d.mems] + [64])
        if d.mems and rng.random() < 0.4:
            # ... or only for the registers: a memory read of an unwritten word then shows the default truncated to
            # the memory's bitwidth (the read port masks it)
            minw = min([len(r) for r in d.regs] + [64])
        dflt = rng.getrandbits(minw) if minw < 64 else rng.choice([1, 5])
        if minw == 1:
            dflt = rng.choice([0, 1])
    return regmap, memmap, dflt
