"""several memories through synthesize(): shared by the C03 and C08 checks"""
import pyrtl
from pyrtl import Input, Output


def several_memories(ctx, count, same_name):
    """several memories in one design -- with one name (memory names are not unique: a helper that builds a named memory,
    called twice) or with names of their own: after synthesize() the testbench written against the original,
    memory_value_map keyed by the original MemBlock objects, still initialises each memory with its own contents, and
    mem_map sends each original memory to the synthesized memory that took its place"""
    rng = ctx.rng
    tag = 'same-name-memories' if same_name else 'several-memories'
    how = 'named lane_mem' if same_name else 'named bank0..'
    for k in range(count):
        pyrtl.reset_working_block()
        nm = rng.choice([2, 2, 3]) if same_name else rng.choice([3, 4, 5])
        aw, dw = rng.choice([1, 2, 3]), rng.choice([2, 3, 8])
        addr, wa, wd, we = Input(aw, 'addr'), Input(aw, 'wa'), Input(dw, 'wd'), Input(nm, 'we')
        mems = [pyrtl.MemBlock(dw, aw, name='lane_mem' if same_name else 'bank%d' % j_, asynchronous=bool(k % 2)) for j_ in range(nm)]
        for j, m in enumerate(mems):
            o = Output(dw, 'o%d' % j)
            o <<= m[addr]
            m[wa] <<= pyrtl.MemBlock.EnabledWrite(wd, we[j])
        init = [{a: rng.getrandbits(dw) | 1 for a in range(1 << aw) if rng.random() < 0.8} for _ in mems]
        blk = pyrtl.working_block()
        steps = [{'addr': rng.randrange(1 << aw), 'wa': rng.randrange(1 << aw), 'wd': rng.getrandbits(dw),
                  'we': rng.choice([0, 0, 1 << rng.randrange(nm), rng.getrandbits(nm)])} for _ in range(rng.choice([4, 7]))]
        # expected: plain integers (asynchronous read: this cycle's address; synchronous memories behave alike here because
        # the address is an Input)
        cont = [dict(i_) for i_ in init]
        want = []
        for st in steps:
            want.append([c.get(st['addr'], 0) for c in cont])
            for j, c in enumerate(cont):
                if (st['we'] >> j) & 1:
                    c[st['wa']] = st['wd']
        for merge in (True, False):
            replay = {'kind': tag, 'same_name': same_name, 'nm': nm, 'aw': aw, 'dw': dw, 'merge_io_vectors': merge, 'steps': steps,
                      'init': [{str(a): v for a, v in i_.items()} for i_ in init]}
            try:
                bs = pyrtl.synthesize(update_working_block=False, merge_io_vectors=merge, block=blk)
            except Exception as e:  # noqa
                ctx.violation(tag + '-synthesize-raises', 'synthesize() of a design with %d memories %s raised '
                              '%s: %s' % (nm, how, type(e).__name__, str(e)[:140]), replay)
                return
            ctx.count(tag, 'synthesized')
            images = [bs.mem_map.get(m) for m in mems]
            if any(i_ is None for i_ in images) or len(set(id(i_) for i_ in images)) != nm:
                ctx.violation(tag + '-mem-map', 'mem_map of the synthesized block sends the %d original memories %s '
                              'to %d distinct memories (each original memory has a synthesized memory of its own)' % (
                                  nm, how, len(set(id(i_) for i_ in images if i_ is not None))), replay)
                return
            if not same_name and [i_.name for i_ in images] != [m.name for m in mems]:
                ctx.violation(tag + '-mem-map', 'mem_map of the synthesized block sends the original memories %r to the synthesized memories %r' % (
                    [m.name for m in mems], [i_.name for i_ in images]), replay)
                return
            for cls in (pyrtl.Simulation, pyrtl.FastSimulation):
                try:
                    sim = cls(block=bs, tracer=pyrtl.SimulationTrace(block=bs),
                              memory_value_map={m: dict(i_) for m, i_ in zip(mems, init)})
                    got = []
                    for st in steps:
                        if merge:
                            sim.step(st)
                        else:
                            sim.step({b_.name: (st[w_.name] >> i_) & 1 for w_ in blk.wirevector_subset(Input)
                                      for i_, b_ in enumerate(bs.io_map[w_])})
                        ctx.evaluations += 1
                        if merge:
                            got.append([sim.inspect('o%d' % j) for j in range(nm)])
                        else:
                            got.append([sum(sim.inspect(b_.name) << i_ for i_, b_ in enumerate(bs.io_map[blk.get_wirevector_by_name('o%d' % j)]))
                                        for j in range(nm)])
                except Exception as e:  # noqa
                    ctx.violation(tag + '-raises', '%s of the synthesized block (%d memories %s, memory_value_map keyed by the original '
                                  'MemBlocks) raised %s: %s' % (cls.__name__, nm, how, type(e).__name__, str(e)[:140]), replay)
                    return
                if got != want:
                    c_ = next(i_ for i_ in range(len(want)) if got[i_] != want[i_])
                    ctx.violation(tag, '%d memories %s, each with its own initial contents and write enable, '
                                  'synthesized (merge_io_vectors=%s) and run under %s with the original testbench: cycle %d reads %r, '
                                  'the memories hold %r' % (nm, how, merge, cls.__name__, c_, got[c_], want[c_]), replay)
                    return
