"""Helpers shared by the pass-preservation checks (C04, C09): apply a pass to a private copy of a
block, evaluate source and result in the Lean Spec model, compare Outputs."""
import contextlib
import io
import pyrtl
from pyrtl import Input, Output, Register
from . import simrun
from .serialize import Ser


def private_copy(block):
    """a block the pass may destroy; same class (PostSynthBlock stays PostSynthBlock), same memory ids"""
    b2 = pyrtl.copy_block(block, update_working_block=False)
    return b2


def run_in(block, fn, foreign=False):
    """run `fn` with `block` as the working block -- or, with `foreign`, with an unrelated scratch block as the
    working block (a pass given `block=` explicitly must act on that block whatever the working block is)"""
    wb = pyrtl.Block() if foreign else block
    if foreign:
        with pyrtl.set_working_block(wb, no_sanity_check=True):
            pyrtl.Input(1, 'verif_foreign_in')
    with pyrtl.set_working_block(wb, no_sanity_check=True):
        with contextlib.redirect_stdout(io.StringIO()):
            return fn()


def spec_trace(ctx, block, steps, regmap_by_name, memmap_by_id, dflt=0, watch=None):
    ser = Ser(block)
    name2w = {w.name: w for w in ser.wires}
    regmap = {name2w[n]: v for n, v in regmap_by_name.items() if n in name2w}
    req = simrun.lean_request(ser, steps, regmap, {}, dflt, model='spec', watch=watch)
    req['memmap'] = sorted([mid, sorted([int(a), int(v)] for a, v in mm.items())] for mid, mm in memmap_by_id.items())
    resp = ctx.driver.ask(req)
    if not resp.get('ok'):
        return None, resp, ser
    return simrun.lean_trace(ser, resp, watch=watch), resp, ser


def io_names(block):
    return (sorted(w.name for w in block.wirevector_subset(Input)),
            sorted(w.name for w in block.wirevector_subset(Output)))


def settle_constants(ctx, block, steps_a, steps_b, memmap_by_id, eliminated):
    """Values the eliminated registers hold in steady state, or None if one does not settle
    (i.e. its value depends on inputs or keeps changing)."""
    if not eliminated:
        return {}
    nreg = len(block.wirevector_subset(Register))
    need = nreg + 2

    def pad(st):
        st = list(st)
        while len(st) < need + 1:
            st = st + st[-1:]
        return st
    ta, ra, _ = spec_trace(ctx, block, pad(steps_a), {}, memmap_by_id, watch=sorted(eliminated))
    tb, rb, _ = spec_trace(ctx, block, pad(steps_b), {}, memmap_by_id, watch=sorted(eliminated))
    if ta is None or tb is None:
        return None
    consts = {}
    for r in eliminated:
        va, vb = ta[r], tb[r]
        if va[-1] != va[-2] or va[-1] != vb[-1] or vb[-1] != vb[-2]:
            continue    # does not settle: legitimately removable only if nothing observable reads it
        consts[r] = va[-1]
    return consts
