"""pyrtl Block -> plain dict (the JSON the Lean driver reads).

Wire ids are positions in the list of wires sorted by name, so they do not depend on set order.
ROM contents are tabulated from the *source data* (`mem.data`: list, dict or function), not through
`RomBlock._get_read_data`, so the Lean side holds what the user wrote, not what the simulator reads.
"""
import types
import pyrtl
from pyrtl import Input, Output, Const, Register
from pyrtl.memory import RomBlock, MemBlock

ROM_TABULATE_LIMIT = 1 << 12


class Ser(object):
    """A serialized block together with the maps needed to talk about it."""

    def __init__(self, block):
        self.block = block
        wires = sorted(block.wirevector_set, key=lambda w: (w.name, id(w)))
        self.wires = wires
        self.wid = {w: i for i, w in enumerate(wires)}
        # nets in a canonical order: by (op, dest names, arg names, param)
        nets = sorted(block.logic, key=net_key)
        self.nets = nets
        self.nid = {id(n): i for i, n in enumerate(nets)}
        mems = {}
        for n in nets:
            if n.op in 'm@':
                mems[n.op_param[1].id] = n.op_param[1]
        self.mems = mems
        self.data = self._build()

    def net_index(self, net):
        """index of a net object (or an equal one) in self.nets"""
        i = self.nid.get(id(net))
        if i is not None:
            return i
        for k, n in enumerate(self.nets):
            if n is net or (n.op == net.op and n.args == net.args and n.dests == net.dests
                            and n.op_param == net.op_param):
                return k
        raise KeyError(net)

    def _build(self):
        ws = []
        for w in self.wires:
            d = {'n': w.name, 'w': w.bitwidth}
            if isinstance(w, Input):
                d['k'] = 'i'
            elif isinstance(w, Output):
                d['k'] = 'o'
            elif isinstance(w, Const):
                d['k'] = 'c'
                d['v'] = int(w.val)
            elif isinstance(w, Register):
                d['k'] = 'r'
                rv = w.reset_value
                d['v'] = None if rv is None else int(rv)
            else:
                d['k'] = 'p'
            ws.append(d)
        ns = []
        for n in self.nets:
            d = {'op': n.op, 'a': [self.wid[a] for a in n.args], 'd': [self.wid[x] for x in n.dests]}
            if n.op == 's':
                d['p'] = [int(x) for x in n.op_param]
            elif n.op in 'm@':
                d['p'] = n.op_param[1].id
            ns.append(d)
        ms = []
        for mid in sorted(self.mems):
            m = self.mems[mid]
            d = {'id': mid, 'aw': m.addrwidth, 'dw': m.bitwidth, 'async': bool(m.asynchronous),
                 'name': m.name}
            if isinstance(m, RomBlock):
                d['rom'] = tabulate_rom(m)
            else:
                d['rom'] = None
            ms.append(d)
        return {'wires': ws, 'nets': ns, 'mems': ms}


def net_key(n):
    p = n.op_param
    if n.op in 'm@':
        p = p[0]
    return (n.op, tuple(w.name for w in n.dests), tuple(w.name for w in n.args), repr(p))


def tabulate_rom(m):
    """[(addr, value)] for every address the source data defines (pad_with_zeros adds zeros)."""
    n = 1 << m.addrwidth
    if n > ROM_TABULATE_LIMIT:
        raise ValueError('ROM too large to tabulate')
    out = []
    data = m.data
    for a in range(n):
        v = None
        if isinstance(data, types.FunctionType):
            try:
                v = data(a)
            except Exception:
                v = None
        elif isinstance(data, dict):
            v = data.get(a)
        else:
            try:
                v = data[a] if a < len(data) else None
            except Exception:
                v = None
        if v is None:
            if getattr(m, 'pad_with_zeros', False) and not isinstance(data, types.FunctionType):
                v = 0
            else:
                continue
        v = int(v)
        if v < 0 or v >= (1 << m.bitwidth):
            continue   # not a legal word: reading it is an error in every simulator
        out.append([a, v])
    return out


def ser_malformed(block):
    """Serialize a possibly malformed block for the Lean sanity model: wires may share names, nets may
    mention wires that are not registered with the block, op_param may be anything."""
    members = set(block.wirevector_set)
    wires = list(members)
    for n in block.logic:
        for w in tuple(n.args) + tuple(n.dests):
            if w not in members and not any(w is x for x in wires):
                wires.append(w)
    wires.sort(key=lambda w: (w.name, id(w)))
    wid = {id(w): i for i, w in enumerate(wires)}
    ws = []
    for w in wires:
        k = 'i' if isinstance(w, Input) else 'o' if isinstance(w, Output) else 'c' if isinstance(w, Const) \
            else 'r' if isinstance(w, Register) else 'p'
        ws.append({'n': w.name, 'w': -1 if w.bitwidth is None else w.bitwidth, 'k': k,
                   'member': (w in members) and (w._block is block),
                   'byname': block.wirevector_by_name.get(w.name) is w})
    ns = []
    for n in sorted(block.logic, key=lambda n: str(n)):
        p = n.op_param
        d = {'op': n.op, 'a': [wid[id(a)] for a in n.args], 'd': [wid[id(x)] for x in n.dests],
             'pnone': p is None, 'ptuple': isinstance(p, tuple)}
        if isinstance(p, tuple) and n.op in 'm@' and len(p) == 2 and isinstance(p[1], MemBlock):
            d['plen'] = 2
            d['mem'] = {'id': p[1].id, 'aw': p[1].addrwidth, 'dw': p[1].bitwidth, 'async': bool(p[1].asynchronous)}
            d['pvals'] = []
        elif isinstance(p, tuple):
            d['plen'] = len(p)
            d['pvals'] = [int(x) for x in p if isinstance(x, int)]
            d['pints'] = all(isinstance(x, int) for x in p)
        else:
            d['plen'] = 0
            d['pvals'] = []
        ns.append(d)
    return {'wires': ws, 'nets': ns, 'legal_ops': ''.join(sorted(block.legal_ops))}
