"""Run real PyRTL simulators and the Lean models on the same block/stimulus; canonical results."""
import pyrtl
from pyrtl import Input, Output, Const, Register
from pyrtl.memory import RomBlock
from .serialize import Ser


def err_class(e):
    if isinstance(e, pyrtl.PyrtlInternalError):
        return 'PyrtlInternalError'
    if isinstance(e, pyrtl.PyrtlError):
        return 'PyrtlError'
    return 'other:' + type(e).__name__


class MemView(object):
    """dict-like read access to CompiledSimulation's memory inspector (which cannot be enumerated when
    the address space is large)"""

    def __init__(self, mm, addrwidth):
        self.mm = mm
        self.addrwidth = addrwidth

    def get(self, a, default=0):
        return int(self.mm[a])

    def __iter__(self):
        if self.addrwidth <= 12:
            return iter(range(1 << self.addrwidth))
        return iter(())

    def items(self):
        return [(a, self.get(a)) for a in self]


class VerifRtlAssertion(Exception):
    """the exception the harness registers with rtl_assert: a testbench may catch it and keep stepping"""


def add_rtl_assert(rng, block):
    """rtl_assert on one bit of a random driven wire of `block`; returns the assertion Output (or None)"""
    cands = sorted((w for w in block.wirevector_set if not isinstance(w, (pyrtl.Output, pyrtl.Const)) and w.bitwidth
                    and not w.name.startswith('assertion')), key=lambda w: w.name)
    if not cands:
        return None
    with pyrtl.set_working_block(block, no_sanity_check=True):
        w = rng.choice(cands)
        bit = w[rng.randrange(len(w))]
        return pyrtl.rtl_assert(bit, VerifRtlAssertion('verif'), block=block)


def run_real(simcls, block, steps, regmap=None, memmap=None, default=0, track='all', foreign=False, **kw):
    """see _run_real; with `foreign`, an unrelated block is the working block while the simulator (given `block=`
    explicitly) is constructed, stepped and inspected"""
    if not foreign:
        return _run_real(simcls, block, steps, regmap, memmap, default, track, **kw)
    other = pyrtl.Block()
    with pyrtl.set_working_block(other, no_sanity_check=True):
        r = pyrtl.Register(3, 'verif_foreign_reg')
        r.next <<= r + 1
        return _run_real(simcls, block, steps, regmap, memmap, default, track, **kw)


def _run_real(simcls, block, steps, regmap=None, memmap=None, default=0, track='all', **kw):
    """Returns {'trace': {wire name: [values]}, 'mem': {memid: {addr: val}}, 'err': None|(cycle, class)}.
    `track='all'` traces every wire the simulator can trace."""
    regmap = dict(regmap or {})
    memmap = {m: dict(v) for m, v in (memmap or {}).items()}
    # bool_inputs: the values of 1-bit inputs are given as Python bools (`sim.step({en: x > 4})`), which every step accepts
    one_bit = {w.name for w in block.wirevector_subset(pyrtl.Input) if len(w) == 1} if kw.pop('bool_inputs', False) else set()
    try:
        if simcls is pyrtl.CompiledSimulation:
            tracer = pyrtl.SimulationTrace(wires_to_track=None if track != 'all' else 'all', block=block)
            sim = simcls(tracer=tracer, memory_value_map=memmap,
                         default_value=default, block=block, **dict(kw, **({'register_value_map': regmap} if regmap else {})))
        else:
            tracer = pyrtl.SimulationTrace(wires_to_track='all' if track == 'all' else None, block=block)
            sim = simcls(tracer=tracer, memory_value_map=memmap,
                         default_value=default, block=block, **dict(kw, **({'register_value_map': regmap} if regmap else {})))
    except Exception as e:  # noqa
        return {'trace': {}, 'mem': {}, 'err': (-1, err_class(e), str(e)[:200]), 'sim': None}
    err = None
    asserted = []
    for k, s in enumerate(steps):
        try:
            sim.step({n_: (bool(v_) if n_ in one_bit else v_) for n_, v_ in s.items()})
        except VerifRtlAssertion:
            asserted.append(k)      # the state has advanced; a testbench that catches the assertion keeps stepping
        except Exception as e:  # noqa
            err = (k, err_class(e), str(e)[:200])
            break
    trace = {name: list(vals) for name, vals in sim.tracer.trace.items()}
    mem = {}
    mems = {}
    for n in block.logic_subset('m@'):
        m = n.op_param[1]
        if not isinstance(m, RomBlock):
            mems[m.id] = m
    for mid, m in mems.items():
        try:
            mm = sim.inspect_mem(m)
            if isinstance(mm, dict):
                mem[mid] = {int(a): int(v) for a, v in mm.items()}
            else:
                mem[mid] = MemView(mm, m.addrwidth)      # a view into the C hash map: query, do not enumerate
        except Exception as e:  # noqa
            mem[mid] = {'err': err_class(e)}
    return {'trace': trace, 'mem': mem, 'err': err, 'sim': sim, 'asserted': asserted}


def lean_request(ser, steps, regmap=None, memmap=None, default=0, model='spec', order=None,
                 wrorder=None, watch=None, memq=None, mem_translate=None):
    """Build the `sim` request for the Lean driver.  regmap: {Register: val}; memmap: {MemBlock: {a: v}}."""
    name2id = {w.name: i for i, w in enumerate(ser.wires)}
    req = {'cmd': 'sim', 'model': model, 'block': ser.data, 'default': int(default)}
    req['regmap'] = sorted([name2id[r.name], int(v)] for r, v in (regmap or {}).items())
    mm = []
    for m, d in (memmap or {}).items():
        mid = m.id if mem_translate is None else mem_translate(m)
        mm.append([mid, sorted([int(a), int(v)] for a, v in d.items())])
    req['memmap'] = sorted(mm)
    req['inputs'] = [sorted([name2id[n], int(v)] for n, v in s.items()) for s in steps]
    req['watch'] = list(range(len(ser.wires))) if watch is None else [name2id[n] for n in watch]
    if order is not None:
        req['order'] = [ser.net_index(n) for n in order if n.op not in 'r@']
    if wrorder is not None:
        req['wrorder'] = [ser.net_index(n) for n in wrorder]
    req['memq'] = memq or []
    return req


def lean_trace(ser, resp, watch=None):
    names = [w.name for w in ser.wires] if watch is None else list(watch)
    tr = {n: [] for n in names}
    for row in resp['trace']:
        for n, v in zip(names, row):
            tr[n].append(v)
    return tr


def compare_traces(real, model, names=None, ncycles=None):
    """first mismatch (name, cycle, real, model) or None; compares only names present in both"""
    keys = names if names is not None else [k for k in real if k in model]
    for n in sorted(keys):
        if n not in real or n not in model:
            continue
        a, b = real[n], model[n]
        m = min(len(a), len(b)) if ncycles is None else min(ncycles, len(a), len(b))
        for c in range(m):
            if a[c] != b[c]:
                return (n, c, a[c], b[c])
    return None
