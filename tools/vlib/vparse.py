"""Strict recogniser of the Verilog subset written by output_to_verilog / output_verilog_testbench.

A tokenizer and a recursive-descent parser with Verilog's operator precedence.  Anything outside the
subset raises VParseError (it is never skipped).  The module AST uses the JSON shapes of
lean/Driver/Verilog.lean."""
import re


class VParseError(Exception):
    pass


TOKEN = re.compile(r'''
    (?P<ws>\s+|//[^\n]*)
  | (?P<sized>\d+\s*'[hdbHDB][0-9a-fA-F_]+)
  | (?P<num>\d+)
  | (?P<id>[A-Za-z_][A-Za-z0-9_$]*)
  | (?P<sys>\$[A-Za-z_]+)
  | (?P<str>"[^"\n]*")
  | (?P<dir>`include)
  | (?P<op><=|==|\+\+|[()\[\]{},;:?=<>+\-*&|^~@\#.])
''', re.X)


def tokenize(text):
    out = []
    pos = 0
    while pos < len(text):
        m = TOKEN.match(text, pos)
        if not m:
            raise VParseError('unexpected character %r at offset %d' % (text[pos], pos))
        pos = m.end()
        k = m.lastgroup
        if k == 'ws':
            continue
        out.append((k, m.group(k)))
    out.append(('eof', ''))
    return out


class P(object):
    def __init__(self, text):
        self.toks = tokenize(text)
        self.i = 0

    def peek(self, k=0):
        return self.toks[self.i + k]

    def next(self):
        t = self.toks[self.i]
        self.i += 1
        return t

    def accept(self, val):
        if self.peek()[1] == val and self.peek()[0] in ('op', 'id', 'sys', 'dir'):
            self.i += 1
            return True
        return False

    def expect(self, val):
        t = self.next()
        if t[1] != val or t[0] not in ('op', 'id', 'sys', 'dir'):
            raise VParseError('expected %r, found %r (token %d)' % (val, t[1], self.i))

    def ident(self):
        t = self.next()
        if t[0] != 'id':
            raise VParseError('identifier expected, found %r' % (t[1],))
        return t[1]

    def number(self):
        t = self.next()
        if t[0] != 'num':
            raise VParseError('number expected, found %r' % (t[1],))
        return int(t[1])

    def rng(self):
        """optional [n:0] -> width"""
        if self.accept('['):
            hi = self.number()
            self.expect(':')
            lo = self.number()
            self.expect(']')
            if lo != 0:
                raise VParseError('range must end at 0')
            return hi + 1
        return 1


# IEEE 1364-2001 Annex B (typed from the standard, independently of the exporter's own list)
KEYWORDS = set("""always and assign automatic begin buf bufif0 bufif1 case casex casez cell cmos config deassign default
defparam design disable edge else end endcase endconfig endfunction endgenerate endmodule endprimitive endspecify
endtable endtask event for force forever fork function generate genvar highz0 highz1 if ifnone incdir include initial
inout input instance integer join large liblist library localparam macromodule medium module nand negedge nmos nor
noshowcancelled not notif0 notif1 or output parameter pmos posedge primitive pull0 pull1 pulldown pullup
pulsestyle_onevent pulsestyle_ondetect rcmos real realtime reg release repeat rnmos rpmos rtran rtranif0 rtranif1
scalared showcancelled signed small specify specparam strong0 strong1 supply0 supply1 table task time tran tranif0
tranif1 tri tri0 tri1 triand trior trireg unsigned use vectored wait wand weak0 weak1 while wire wor xnor xor""".split())


def literal(tok):
    if tok[0] == 'num':
        return ['num', None, int(tok[1])]
    m = re.match(r"(\d+)\s*'([hdbHDB])([0-9a-fA-F_]+)$", tok[1])
    if m is None:
        raise VParseError('malformed sized literal %r' % (tok[1],))
    base = {'h': 16, 'd': 10, 'b': 2}[m.group(2).lower()]
    try:
        return ['num', int(m.group(1)), int(m.group(3).replace('_', ''), base)]
    except ValueError:
        raise VParseError('digits of %r are not base-%d digits' % (tok[1], base))


class ExprParser(object):
    """expression grammar of the subset; `mems` = names declared as memories"""

    def __init__(self, p, mems, hier=False):
        self.p = p
        self.mems = mems
        self.hier = hier

    def name(self):
        n = self.p.ident()
        if n in KEYWORDS:
            raise VParseError('keyword %s used as an identifier' % n)
        while self.hier and self.p.accept('.'):
            n = n + '.' + self.p.ident()
        return n

    def primary(self):
        p = self.p
        t = p.peek()
        if t[0] in ('num', 'sized'):
            p.next()
            return literal(t)
        if t[1] == '(' and t[0] == 'op':
            p.next()
            e = self.expr()
            p.expect(')')
            return e
        if t[1] == '{' and t[0] == 'op':
            p.next()
            xs = [self.expr()]
            while p.accept(','):
                xs.append(self.expr())
            p.expect('}')
            return ['cat', xs]
        if t[0] == 'id':
            n = self.name()
            if p.accept('['):
                if n in self.mems:
                    e = self.expr()
                    p.expect(']')
                    return ['mem', n, e]
                ix = p.number()
                p.expect(']')
                return ['bit', n, ix]
            if n in self.mems:
                raise VParseError('memory %s used without an index' % n)
            return ['id', n]
        raise VParseError('expression expected, found %r' % (t[1],))

    def unary(self):
        if self.p.peek() == ('op', '~'):
            self.p.next()
            return ['not', self.unary()]
        return self.primary()

    def level(self, sub, ops, tag):
        e = sub()
        while self.p.peek()[0] == 'op' and self.p.peek()[1] in ops:
            op = self.p.next()[1]
            e = [tag, op, e, sub()]
        return e

    def mul(self):
        return self.level(self.unary, ('*',), 'bin')

    def add(self):
        return self.level(self.mul, ('+', '-'), 'bin')

    def rel(self):
        return self.level(self.add, ('<', '>'), 'cmp')

    def eq(self):
        return self.level(self.rel, ('==',), 'cmp')

    def band(self):
        return self.level(self.eq, ('&',), 'bin')

    def bxor(self):
        return self.level(self.band, ('^',), 'bin')

    def bor(self):
        return self.level(self.bxor, ('|',), 'bin')

    def expr(self):
        c = self.bor()
        if self.p.accept('?'):
            a = self.expr()
            self.p.expect(':')
            b = self.expr()
            return ['tern', c, a, b]
        return c


def parse_module(text):
    """-> dict in the shape of Driver/Verilog.lean `parseModule`, plus 'ports' and 'wires'"""
    p = P(text)
    p.expect('module')
    if p.ident() != 'toplevel':
        raise VParseError('module is not named toplevel')
    p.expect('(')
    ports = [p.ident()]
    while p.accept(','):
        ports.append(p.ident())
    p.expect(')')
    p.expect(';')
    mod = {'ports': ports, 'widths': [], 'inputs': [], 'outputs': [], 'regs': [], 'wires': [], 'mems': [],
           'rominit': [], 'assigns': [], 'always': []}
    declared = {}
    mems = {}

    def declare(kind, name, w):
        if name in KEYWORDS:
            raise VParseError('reserved word %s declared as an identifier' % name)
        if name in declared or name in mems:
            raise VParseError('%s declared twice' % name)
        declared[name] = (kind, w)
        mod[kind + 's'].append(name)
        mod['widths'].append([name, w])

    def stmt(ep):
        if p.accept('begin'):
            out = []
            while not p.accept('end'):
                out += stmt(ep)
            return out
        if p.accept('if'):
            p.expect('(')
            c = ep.expr()
            p.expect(')')
            t = stmt(ep)
            e = stmt(ep) if p.accept('else') else []
            return [['if', c, t, e]]
        n = ep.name()
        ix = None
        if p.accept('['):
            if n not in mems:
                raise VParseError('indexed assignment to non-memory %s' % n)
            ix = ep.expr()
            p.expect(']')
        elif n in mems:
            raise VParseError('memory %s assigned without index' % n)
        elif declared.get(n, ('', 0))[0] != 'reg':
            raise VParseError('procedural assignment to %s which is not a reg' % n)
        p.expect('<=')
        rhs = ep.expr()
        p.expect(';')
        return [['nba', n, ix, rhs]]

    while True:
        t = p.peek()
        if t[1] == 'endmodule':
            p.next()
            break
        if t[1] in ('input', 'output', 'wire'):
            p.next()
            w = p.rng()
            declare(t[1], p.ident(), w)
            p.expect(';')
        elif t[1] == 'reg':
            p.next()
            w = p.rng()
            n = p.ident()
            if p.peek() == ('op', '['):
                size = p.rng()
                if n in declared or n in mems:
                    raise VParseError('%s declared twice' % n)
                mems[n] = (w, size)
                mod['mems'].append([n, w, size])
            else:
                declare('reg', n, w)
            p.expect(';')
        elif t[1] == 'initial':
            p.next()
            p.expect('begin')
            while not p.accept('end'):
                n = p.ident()
                if n not in mems:
                    raise VParseError('initial block assigns non-memory %s' % n)
                p.expect('[')
                ix = p.number()
                p.expect(']')
                p.expect('=')
                lit = p.next()
                if lit[0] != 'sized':
                    raise VParseError('sized literal expected in ROM initialisation')
                v = literal(lit)
                p.expect(';')
                mod['rominit'].append([n, ix, v[1], v[2]])
        elif t[1] == 'assign':
            p.next()
            ep = ExprParser(p, mems)
            lhs = ep.name()
            if declared.get(lhs, ('', 0))[0] not in ('wire', 'output'):
                raise VParseError('continuous assignment to %s which is not a net' % lhs)
            p.expect('=')
            rhs = ep.expr()
            p.expect(';')
            mod['assigns'].append([lhs, rhs])
        elif t[1] == 'always':
            p.next()
            p.expect('@')
            p.expect('(')
            p.expect('posedge')
            p.expect('clk')
            is_async = False
            if p.accept('or'):
                p.expect('posedge')
                p.expect('rst')
                is_async = True
            p.expect(')')
            mod['always'].append({'async': is_async, 'body': stmt(ExprParser(p, mems))})
        else:
            raise VParseError('unexpected token %r in module body' % (t[1],))
    if p.peek()[0] != 'eof':
        raise VParseError('text after endmodule')
    # every port declared as input/output, every input/output a port
    io = [n for n in mod['inputs'] + mod['outputs']]
    if sorted(io) != sorted(ports):
        raise VParseError('port list %r does not match input/output declarations %r' % (ports, io))
    check_names(mod, declared, mems)
    return mod


def walk_expr(e, f):
    f(e)
    tag = e[0]
    if tag == 'not':
        walk_expr(e[1], f)
    elif tag in ('bin', 'cmp'):
        walk_expr(e[2], f)
        walk_expr(e[3], f)
    elif tag == 'tern':
        for x in e[1:]:
            walk_expr(x, f)
    elif tag == 'cat':
        for x in e[1]:
            walk_expr(x, f)
    elif tag == 'mem':
        walk_expr(e[2], f)


def check_names(mod, declared, mems):
    """every identifier used is declared; bit-selects are inside the vector; each net has one driver"""
    def chk(e):
        if e[0] == 'id' and e[1] not in declared:
            raise VParseError('undeclared identifier %s' % e[1])
        if e[0] == 'bit':
            if e[1] not in declared:
                raise VParseError('undeclared identifier %s' % e[1])
            if declared[e[1]][1] == 1:
                raise VParseError('bit-select of scalar %s' % e[1])
            if e[2] >= declared[e[1]][1]:
                raise VParseError('bit-select %s[%d] outside the vector' % (e[1], e[2]))
        if e[0] == 'mem' and e[1] not in mems:
            raise VParseError('undeclared memory %s' % e[1])
    driven = set()
    for lhs, rhs in mod['assigns']:
        if lhs in driven:
            raise VParseError('net %s has two continuous assignments' % lhs)
        driven.add(lhs)
        walk_expr(rhs, chk)

    def walk_stmt(s):
        if s[0] == 'nba':
            if s[2] is not None:
                walk_expr(s[2], chk)
            walk_expr(s[3], chk)
        else:
            walk_expr(s[1], chk)
            for x in s[2] + s[3]:
                walk_stmt(x)
    for a in mod['always']:
        for s in a['body']:
            walk_stmt(s)
    for n, ix, w, v in mod['rominit']:
        if ix >= mems[n][1]:
            raise VParseError('ROM initialisation %s[%d] outside the memory' % (n, ix))


def parse_testbench(text):
    """-> {'regs': {name: width}, 'wires': {...}, 'instance': {port: net}, 'init': [...], 'cycles': [ {name: (w, v)} ],
           'finish': bool}.  init entries: ('set', hier name, value) | ('fill', hier mem, count, value) |
           ('word', hier mem, index, value), in textual order."""
    p = P(text)
    tb = {'include': None, 'regs': {}, 'wires': {}, 'instance': {}, 'init': [], 'cycles': [], 'cmds': 0}
    if p.accept('`include'):
        t = p.next()
        if t[0] != 'str':
            raise VParseError('include file name expected')
        tb['include'] = t[1].strip('"')
    p.expect('module')
    if p.ident() != 'tb':
        raise VParseError('testbench module is not named tb')
    p.expect('(')
    p.expect(')')
    p.expect(';')
    while p.peek()[1] in ('reg', 'wire'):
        k = p.next()[1]
        w = p.rng()
        n = p.ident()
        p.expect(';')
        if n in KEYWORDS:
            raise VParseError('reserved word %s declared as an identifier' % n)
        if n in tb['regs'] or n in tb['wires']:
            raise VParseError('%s declared twice in the testbench' % n)
        tb[k + 's'][n] = w
    p.expect('integer')
    if p.ident() != 'tb_iter':
        raise VParseError('integer tb_iter expected')
    p.expect(';')
    for special in ('tb_iter', 'block'):
        if special in tb['regs'] or special in tb['wires']:
            raise VParseError('%s declared twice in the testbench' % special)
    p.expect('toplevel')
    if p.ident() != 'block':
        raise VParseError('instance is not named block')
    p.expect('(')
    while True:
        p.expect('.')
        port = p.ident()
        p.expect('(')
        tb['instance'][port] = p.ident()
        p.expect(')')
        if not p.accept(','):
            break
    p.expect(')')
    p.expect(';')
    p.expect('always')
    p.expect('#')
    if p.number() != 5:
        raise VParseError('clock half period is not 5')
    for tok in ('clk', '=', '~', 'clk', ';'):
        p.expect(tok)
    p.expect('initial')
    p.expect('begin')
    if p.accept('$dumpfile'):
        p.expect('(')
        if p.next()[0] != 'str':
            raise VParseError('dumpfile name expected')
        p.expect(')')
        p.expect(';')
        p.expect('$dumpvars')
        p.expect(';')
    cur = {}
    started = False
    finished = False
    while True:
        t = p.peek()
        if t[1] == '$finish':
            p.next()
            p.expect(';')
            finished = True
            break
        if t[1] == '#' and t[0] == 'op':
            p.next()
            if p.number() != 10:
                raise VParseError('cycle delay is not 10')
            tb['cycles'].append(cur)
            cur = {}
            started = True
            continue
        if t[1] == 'for':
            p.next()
            p.expect('(')
            for tok in ('tb_iter', '=',):
                p.expect(tok)
            if p.number() != 0:
                raise VParseError('for loop does not start at 0')
            p.expect(';')
            p.expect('tb_iter')
            p.expect('<')
            count = p.number()
            p.expect(';')
            p.expect('tb_iter')
            p.expect('++')
            p.expect(')')
            p.expect('begin')
            p.expect('block')
            p.expect('.')
            mem = p.ident()
            p.expect('[')
            p.expect('tb_iter')
            p.expect(']')
            p.expect('=')
            v = p.number()
            p.expect(';')
            p.expect('end')
            tb['init'].append(('fill', mem, count, v))
            continue
        if t[0] == 'sys':
            # the user's cmd (copied verbatim): accept a $display-like statement up to ';'
            while p.next()[1] != ';':
                if p.peek()[0] == 'eof':
                    raise VParseError('unterminated command')
            tb['cmds'] += 1
            continue
        n = p.ident()
        if n == 'block':
            p.expect('.')
            target = p.ident()
            if p.accept('['):
                ix = p.number()
                p.expect(']')
                p.expect('=')
                tb['init'].append(('word', target, ix, p.number()))
            else:
                p.expect('=')
                tb['init'].append(('set', target, p.number()))
            p.expect(';')
            if started:
                raise VParseError('state initialisation after the first cycle')
            continue
        p.expect('=')
        lit = p.next()
        if lit[0] == 'sized':
            v = literal(lit)
            val = (v[1], v[2])
        elif lit[0] == 'num':
            val = (None, int(lit[1]))
        else:
            raise VParseError('literal expected in testbench assignment to %s' % n)
        p.expect(';')
        if n not in tb['regs']:
            raise VParseError('testbench assigns undeclared reg %s' % n)
        cur[n] = val
    if cur and not (set(cur) <= {'clk', 'rst'}) and started:
        raise VParseError('inputs assigned after the last cycle')
    if not started:
        tb['preamble'] = cur
    else:
        tb['preamble'] = {}
    p.expect('end')
    p.expect('endmodule')
    if p.peek()[0] != 'eof':
        raise VParseError('text after the testbench')
    tb['finish'] = finished
    return tb
